#!/bin/bash
# run_benign.sh [dir-name ...]   applies each property-PRESERVING change under /verif/benign to /repo, runs the
# check of its property (quick; also thorough with THOROUGH=1) and expects exit 0; always reverts /repo.
cd /verif
names="$@"; [ -z "$names" ] && names=$(ls benign)
for s in $names; do
  d=/verif/benign/$s; [ -f $d/patch.diff ] || continue
  pid=${s:0:3}
  if ! git -C /repo apply --check $d/patch.diff 2>/dev/null; then echo "$s: PATCH DOES NOT APPLY"; continue; fi
  git -C /repo apply $d/patch.diff
  out=$(./check $pid quick 2>&1); rc=$?; tier=quick
  if [ $rc -eq 0 ] && [ -n "$THOROUGH" ]; then out=$(./check $pid thorough 2>&1); rc=$?; tier=thorough; fi
  git -C /repo checkout -- .
  note=$(echo "$out" | grep -m1 -E "^NOTE" | cut -c1-80)
  sig=$(echo "$out" | grep -m1 -E "^(DETAIL|MACHINERY)" | cut -c1-300)
  echo "$s: property=$pid tier=$tier rc=$rc $note $sig"
done
git -C /repo status --short | head -3
