#!/bin/bash
# process_seed6.sh <ID>...   round 6: confirm SEED/a -> <ID>k and SEED/b -> <ID>l in /tmp/wt6/<ID> (confirmation only)
export WTROOT=/tmp/wt6
for ID in "$@"; do
  for pair in a:k b:l; do
    V=${pair%%:*}; DV=${pair##*:}
    /verif/tools/confirm_seed.sh $ID $V $DV 2>&1 | grep -E "CONFIRMED"
  done
done
