#!/usr/bin/env python3
"""Generates /verif/MANIFEST.json (run from anywhere)."""
import json, subprocess, os
V = os.path.dirname(os.path.dirname(os.path.abspath(__file__)))
mc, ex = "model_checking", "exploration"
E1 = "E1 explicit-state BFS over live implementation objects (harness/src/bfs.rs)"
checks = {
 "C01": (mc, "explicit-state model checking of the real code: product graph (ChunkSerializer x ChunkDeserializer), BFS to fixpoint over finite alphabet slices; every edge delivered whole, bytewise and at every 2-way cut",
   "Closed slices decide the round trip for every finite message sequence over the slice alphabet, of any length, under the three delivery shapes; plus bounded maximum-size cases. Alphabet values are the thresholds visible in the code (0xFFFFFF, 2^32 wrap, chunk-size multiples).",
   "payload bytes are a position pattern (chunk_io never branches on payload content); 128-bit state hashes; fingerprint hooks list every field (exhaustive destructuring)", "4 C01"),
 "C02": (mc, "stateless deviation-bounded exploration (iterative context bounding transplanted to environment schedules) of the closed system real ClientSession + real ServerSession + 2 byte channels + scripted applications",
   "All schedules with <= 0/1/(2) deviations (any alternative actor, any cut position of any delivery at any step) over script x chunk-size pair x window pair menus, each run to quiescence on the real sessions with an exactly-once/in-order/byte-exact/tag oracle.",
   "window pairs whose acknowledgement traffic diverges are excluded (documented); scripted applications; deterministic clock hook", "4 C02"),
 "C03": (ex, "bounded-exhaustive exploration: deserializer token-alphabet state graph incl. illegal headers (BFS, depth 3), all byte strings <= 2/3 bytes, 12-symbol menu strings <= 5/6, all 256 type ids x body grammar, every session state reached by the C09/C10 alphabets x malformed-message menu, handshake byte menus; panic via catch_unwind, memory via counting allocator, hang via watchdog",
   "Exploration, not a proof over all byte strings: the explored sub-domain is stated and fully enumerated; oracle is 'returns Ok/Err, bounded peak allocation, returns in time'.",
   "an Err result ends the explored path after three follow-up calls on the errored object (empty input, a continuation byte, a fresh type-0 chunk), which must return too; AMF0 nesting bounded here (C14); memory bound factor 8/256 x received + 17 MiB", "4 C03"),
 "C04": (ex, "bounded-exhaustive enumeration of AMF0 value forests (staged atom/name/shape menus, depth <= 3/4, sequences <= 3) through the real serialize/deserialize; identity oracle",
   "Every forest of the finite, stated space is enumerated; encode must error or decode(all bytes) == input (numbers bit-for-bit, objects as maps).", "menus chosen from code thresholds (0, 65535, 65536 bytes; NaN/signed zero patterns)", "4 C04/C12"),
 "C05": (mc, "explicit-state exploration of the real Handshake: all-partitions graph per side (every (offset, call length) edge executed on the real object and required to land on the canonical node), joint interleaving grid from the verified emission functions plus real-object schedule replays",
   "Thorough: every one of the L(L+1)/2 edges for every stream => all 2^(L-1) partitions of that stream by induction; quick: all call lengths from boundary-neighbourhood and stride-13 offsets. Streams: library client/server both speaking orders, digest-less peers, trailing bytes.",
   "filler bytes sampled (deterministic per seed via hook); joint grid relies on the per-side result established on the same streams", "4 C05"),
 "C06": (mc, "explicit-state model checking: product graph (independent spec encoder R1 with free csid-form/header-format choice x real ChunkDeserializer), BFS to fixpoint",
   "Closed slices cover every finite sequence of spec-legal encodings over the alphabet (csids 2..65599 in all forms, fmt 0-3 wherever legal, extended timestamps, zero-length, in-band chunk size changes).", "R1 is a faithful reading of RTMP 1.0 5.3.1 (unit-tested vectors)", "4 C06"),
 "C07": (mc, "explicit-state model checking: same serializer graph as C01 with the independent specification decoder R1 + per-chunk conformance predicates as oracle (library deserializer not involved)",
   "Closed slices: for every finite message sequence over the alphabet the bytes decode under R1 to exactly the messages, csid minimal, 24-bit saturation/extended field, chunk payload <= announced size, size announced before use.", "R1 decoder is written from the specification and shares no code or constant with the library", "4 C07"),
 "C08": (mc, "explicit-state model checking: C01 graph plus a nondeterministic 'drop this droppable packet' edge; receiver state (library deserializer and R1) lags; BFS to fixpoint",
   "A subset of dropped packets is a path, so a closed slice covers all 2^k subsets for unbounded k over the slice alphabet.", "as C01/C07", "4 C08"),
 "C09": (mc, "explicit-state model checking of the real ServerSession in lockstep with a reference protocol model (R5s): BFS over peer-message/application-call alphabet from several reached start states, depth-bounded; refusals must leave the logic fingerprint byte-identical; no-merge cross-check pass",
   "All action sequences up to the stated depth (<= 2/3 streams and outstanding requests); the model prescribes only what the statement prescribes and is permissive elsewhere (listed in DESIGN.md).", "peer codec = library codec (codec conformance is C06/C07); node key = logic fingerprint + model state (codec transparency from C01/C07/C15)", "4 C09"),
 "C10": (mc, "explicit-state model checking of the real ClientSession in lockstep with reference model R5c; same scheme as C09",
   "All action sequences up to the stated depth from six reached start states.", "as C09", "4 C10"),
 "C11": (ex, "bounded-exhaustive enumeration: both roles x every pointer-byte sum 0..1020 (all 728 offsets incl. wrapped sums) for own packet 1 (forced through the filler hook), both roles x both schemes x every sum for packet 2; independent HMAC-SHA256 (self-tested against RFC 4231)",
   "Exhaustive over digest offsets and schemes; filler bytes sampled per seed.", "keys/offset formulas from the clean-room RTMPE description; own SHA-256/HMAC implementation is the oracle", "4 C11"),
 "C12": (ex, "bounded-exhaustive enumeration: C04 forests against independent AMF0 codec R3 in both directions (byte-exact encoder conformance; reference encodings under property permutations, ECMA arrays with 4 count policies, non-standard true bytes), all 256 markers in 5 positions, every truncation point",
   "Every case of the stated finite space.", "R3 written from the AMF0 specification; byte 0x09 in value position not judged", "4 C04/C12"),
 "C13": (ex, "bounded-exhaustive enumeration: every message variant x boundary menus, AMF0 argument lists from the C04 forests, all 256 type ids x bodies (quick); all 2^32 values of every u32 field (thorough); independent body codec R2",
   "Thorough tier is exhaustive over each u32 field.", "R2 written from RTMP 1.0 5.4/7.1", "4 C13"),
 "C14": (ex, "bounded-exhaustive fault-style enumeration in isolated child processes: nesting ladders (to 16 MiB / unit) and count-field menus on fixed-size thread stacks with a counting allocator; in-process token grammar to 4/5 tokens",
   "Child exit status decides stack overflow/abort; peak allocation from the counting allocator.", "bound 256 x input + 128 KiB", "4 C14"),
 "C15": (mc, "explicit-state exploration of the real deserializer/sessions: all-partitions graph per stream (nodes = offset x concrete fingerprint x observation history, an edge per call length)",
   "For every stream <= 400 bytes all 2^(L-1) partitions are decided (any partition is a path); streams: library-produced, foreign-encoder, interleaved, invalid; session tails from 7 prepared states.", "sessions: Acknowledgement outputs excluded (C17), no application calls during the tail", "4 C15"),
 "C16": (mc, "exhaustive enumeration of ALL order-preserving interleavings of the chunks of 2-3 multi-chunk messages on distinct csids (R1 encoder, header-format/history variants, optional in-band Set Chunk Size at every gap) against the real deserializer",
   "Every interleaving of every case in the stated menus; each delivered chunk-by-chunk (message must appear on its last chunk), whole and bytewise.", "R1 encoder; a Set Chunk Size applies to all later chunks incl. those of messages in flight", "4 C16"),
 "C17": (mc, "explicit-state model checking: (real session x byte-counter model x position in an endless valid stream), BFS to fixpoint, every window 1..24/64 reached via re-announcements, call sizes 0..2W+1; large windows sampled with scripted runs",
   "Closed graph per session kind: every call-size sequence of any length over the alphabet for every small window incl. mid-stream re-announcements.", "invariant stated for the window in force when a call starts; large windows sampled (as the property says)", "4 C17"),
 "C18": (mc, "explicit-state model checking: C09/C10 graphs extended with media sends, a controlled clock (anchors around 2^24 / 2^32 ms, backwards) and a drop edge per droppable packet; independent decoder R1 + R2/R3 on everything emitted",
   "All action sequences to the stated depth from prepared states at three chunk sizes, all drop subsets.", "node key = full session fingerprint + receiver decoder state + model", "4 C18"),
 "C19": (ex, "bounded-exhaustive enumeration of configuration/argument value menus x entry points, one isolated child process per case with wall-clock and address-space caps; accepted values must pass a mini C01/C02",
   "Every (entry point, value) pair of the stated menus.", "wall cap 10/30 s, 4 GiB address space", "4 C19"),
 "C20": (ex, "bounded-exhaustive enumeration: anchor values x all 2^32 values of the other operand (both roles in thorough), integer reference",
   "Thorough: 23 anchors x 2^32 in both roles; quick: 2 anchors x 2^32 d plus strided a.", "domain covered on anchor lines, not all 2^64 pairs", "4 C20"),
}
hooks = subprocess.check_output(["git","-C","/repo","log","--format=%h %s"]).decode().splitlines()
hook_commits = [l.split()[0] for l in hooks if "verif" in l.lower() and not l.split()[1].startswith("fix:")]
m = {
 "version": 1,
 "setup_cmd": "cd /verif/harness && CARGO_NET_OFFLINE=true cargo build --release --offline",
 "hooks": {
   "guard": "cargo feature `verif` of the rml_rtmp crate (off by default; nothing compiled in without it)",
   "enable": "the harness crate /verif/harness depends on /repo/rtmp by path with features=[\"verif\"]; ./check rebuilds harness + library from /repo's working tree on every invocation",
   "baseline_off_cmd": "cd /repo && cargo nextest run --workspace --no-fail-fast --tool-config-file pb:/w/lib/nextest.toml --profile pb --test-threads 8 --offline",
   "source_commits": hook_commits,
   "add_only": True },
 "engines": [
   {"name": "E1", "path": "harness/src/bfs.rs", "serves_properties": ["C01","C03","C06","C07","C08","C09","C10","C17","C18"], "kind_free_text": "explicit-state breadth-first search over live library objects (cloned at branch points), states merged by 128-bit hash of canonical fingerprints, level-parallel (rayon), fixpoint or depth bound, optional no-merge pass"},
   {"name": "E1p", "path": "harness/src/checks/c15.rs, harness/src/checks/c05.rs", "serves_properties": ["C05","C15"], "kind_free_text": "all-partitions graph: nodes (offset, concrete state, observations), one edge per call length; decides all 2^(L-1) partitions of a stream"},
   {"name": "E2", "path": "harness/src/checks/c02.rs", "serves_properties": ["C02"], "kind_free_text": "stateless deviation-bounded exploration (default schedule + <= d deviations: alternative actor or cut position), executions run to quiescence"},
   {"name": "E3", "path": "harness/src/checks/{amf0,c11,c13,c16,c20}.rs", "serves_properties": ["C04","C11","C12","C13","C16","C20"], "kind_free_text": "bounded-exhaustive odometer enumeration over stated finite products, rayon-chunked"},
   {"name": "E4", "path": "harness/src/child.rs", "serves_properties": ["C14","C19"], "kind_free_text": "isolated case runner: one child process per case with RLIMIT_AS and a wall-clock cap; abnormal termination is a verdict"},
   {"name": "refmodel", "path": "harness/src/refmodel/", "serves_properties": ["C01","C06","C07","C08","C11","C12","C13","C15","C16","C18","C20"], "kind_free_text": "independent reference implementations written from the specifications: R1 chunk codec, R2 message bodies, R3 AMF0, R4 SHA-256/HMAC, R7 wrap-around clock; protocol models R5s/R5c live in checks/c09.rs, checks/c10.rs"}],
 "checks": [],
 "notes": "Exit codes of ./check: 0 held (KNOWN-FINDING lines possible), 1 VIOLATION, 2 machinery failure (never a verdict). Known findings: /verif/known_findings.json (read-only at run time). Seeded changes used to demonstrate detection: /verif/seeded/. See DESIGN.md.",
 "not_applicable": []
}
for pid in sorted(checks):
    lvl, tech, text, note, ref = checks[pid]
    m["checks"].append({
      "property_id": pid,
      "quick_cmd": "./check %s quick" % pid,
      "thorough_cmd": "./check %s thorough" % pid,
      "evidence_file": "/verif/evidence/%s.json" % pid,
      "replay_cmd_template": "./check %s --replay {path}" % pid,
      "engine": "vcheck (harness/src/checks)",
      "level_claimed": {"category": lvl, "text": text, "design_ref": "DESIGN.md section " + ref},
      "level_note": note + "; families added after the seeded-change rounds (sizes above 4 KiB / 64 KiB / 2^23, long scripted histories, value sweeps over type ids, message stream ids, text content) are listed in DESIGN.md section 0a and in each evidence file",
      "technique": tech })
json.dump(m, open(os.path.join(V, "MANIFEST.json"), "w"), indent=1)
print("checks:", len(m["checks"]), "hook commits:", hook_commits)
