#!/usr/bin/env python3
"""Prints the markdown table of seeded changes from seeded/*/meta.json and seeded/descriptions.json."""
import json, glob, os
V = os.path.dirname(os.path.dirname(os.path.abspath(__file__)))
desc = json.load(open(os.path.join(V, "seeded", "descriptions.json")))
print("| seeded change | breaks | detected by (first signature) |\n|---|---|---|")
for d in sorted(glob.glob(os.path.join(V, "seeded", "*", "meta.json"))):
    m = json.load(open(d)); name = os.path.basename(os.path.dirname(d))
    det = (m.get("detected_by") or [None])[0]
    how = "`./check %s %s`: `%s`" % (det["check"], det["tier"], det["first_signature"].split(" :: ")[0]) if det else "**missed**"
    print("| `%s` %s | %s | %s |" % (name, desc.get(name, ""), m["property"], how))
