#!/bin/bash
# confirm_seed.sh <ID> <variant>   e.g. C08 a
# Confirms a seeded change in its scratch worktree /tmp/wt/<ID>: suite passes with the change,
# demo fails with it and passes without it.  Copies it to /verif/seeded/<ID><variant>/ with meta.json.
set -u
ID=$1; V=$2; WT=${WTROOT:-/tmp/wt}/$ID; SRC=$WT/SEED/$V
DV=${3:-$V}
OUT=/verif/seeded/${ID}${DV}
[ -f "$SRC/patch.diff" ] || { echo "no patch for $ID $V"; exit 2; }
cd "$WT" || exit 2
git checkout -q -- . ; rm -rf rtmp/tests amf0/tests
crate=rtmp; pkg=rml_rtmp
if grep -q "^diff --git a/amf0" "$SRC/patch.diff" && ! grep -q "^diff --git a/rtmp" "$SRC/patch.diff"; then crate=amf0; pkg=rml_amf0; fi
if grep -q "rml_rtmp" "$SRC/demo.rs"; then crate=rtmp; pkg=rml_rtmp; fi
mkdir -p $crate/tests && cp "$SRC/demo.rs" $crate/tests/seed_demo.rs
# without the change
cargo test -p $pkg --test seed_demo --offline >/tmp/seed_${ID}${V}_base.log 2>&1; base_rc=$?
git apply "$SRC/patch.diff" || { echo "patch does not apply"; exit 2; }
cargo test -p $pkg --test seed_demo --offline >/tmp/seed_${ID}${V}_mut.log 2>&1; mut_rc=$?
rm -rf rtmp/tests amf0/tests
cargo nextest run --workspace --no-fail-fast --tool-config-file pb:/w/lib/nextest.toml --profile pb --test-threads 8 --offline >/tmp/seed_${ID}${V}_suite.log 2>&1; suite_rc=$?
suite_summary=$(grep -E "Summary" /tmp/seed_${ID}${V}_suite.log | tail -1 | sed 's/\x1b\[[0-9;]*m//g')
git checkout -q -- .
echo "$ID$V: demo without change rc=$base_rc (want 0); demo with change rc=$mut_rc (want !=0); suite with change rc=$suite_rc (want 0) $suite_summary"
if [ $base_rc -eq 0 ] && [ $mut_rc -ne 0 ] && [ $suite_rc -eq 0 ]; then
  mkdir -p "$OUT" && cp "$SRC/patch.diff" "$OUT/patch.diff" && cp "$SRC/demo.rs" "$OUT/demo.rs" && cp "$SRC/notes.md" "$OUT/notes.md" 2>/dev/null
  python3 - "$ID" "$DV" "$OUT" "$suite_summary" "$crate" "$pkg" <<'PY'
import json,sys
i,v,out,summary,crate,pkg=sys.argv[1:7]
meta={"property":i,"variant":v,
 "needs_to_manifest":"see notes.md (written by the independent sub-agent that produced the change)",
 "confirmed_by":"tools/confirm_seed.sh in a scratch worktree of /repo under /tmp (%s)"%i,
 "ran":["cargo test -p %s --test seed_demo --offline   (demo placed at %s/tests/seed_demo.rs): passes without the change, fails with it"%(pkg,crate),
        "cargo nextest run --workspace ... --offline with the change applied: "+summary.strip()],
 "detected_by":[]}
json.dump(meta,open(out+"/meta.json","w"),indent=1)
PY
  echo "$ID$DV CONFIRMED"
else
  echo "$ID$DV NOT CONFIRMED"
fi
