#!/bin/bash
# process_seed4.sh <ID>   round 4: confirm SEED/a -> <ID>g and SEED/b -> <ID>h in /tmp/wt4/<ID>, then run the check
ID=$1
export WTROOT=/tmp/wt4
for pair in a:g b:h; do
  V=${pair%%:*}; DV=${pair##*:}
  /verif/tools/confirm_seed.sh $ID $V $DV 2>&1 | grep -E "CONFIRMED|want"
  [ -d /verif/seeded/${ID}${DV} ] && /verif/tools/run_seeds.sh ${ID}${DV} 2>&1 | grep -v "^WARNING" | grep -v "^$" | cut -c1-300
done
