#!/bin/bash
# process_seed7.sh <ID>...   round 7: confirm SEED/a -> <ID>m and SEED/b -> <ID>n in /tmp/wt8/<ID> (confirmation only)
export WTROOT=/tmp/wt8
for ID in "$@"; do
  for pair in a:m b:n; do
    V=${pair%%:*}; DV=${pair##*:}
    /verif/tools/confirm_seed.sh $ID $V $DV 2>&1 | grep -E "CONFIRMED"
  done
done
