#!/bin/bash
# process_seed.sh <ID> <variant>...  : confirm in the scratch worktree, then run the property's check against it
ID=$1; shift
for V in "$@"; do
  /verif/tools/confirm_seed.sh $ID $V 2>&1 | grep -E "CONFIRMED"
  [ -d /verif/seeded/${ID}${V} ] && /verif/tools/run_seeds.sh ${ID}${V} 2>&1 | grep -v "^WARNING" | grep -v "^$" | cut -c1-260
done
