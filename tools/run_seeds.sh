#!/bin/bash
# run_seeds.sh [seed-dir-name ...]   applies each seeded change to /repo, runs the check of its property
# (quick, then thorough if quick misses), records the outcome in meta.json, and always reverts /repo.
cd /verif
seeds="$@"; [ -z "$seeds" ] && seeds=$(ls seeded)
for s in $seeds; do
  d=/verif/seeded/$s; [ -f $d/patch.diff ] || continue
  # the check that judges the change: its own property's, unless meta.json names another one (judged_by_check) because
  # the broken clause belongs to that property (explained in the seed's meta.json and in DESIGN.md)
  pid=$(python3 -c "import json;m=json.load(open('$d/meta.json'));print(m.get('judged_by_check',m['property']))")
  if ! git -C /repo apply --check $d/patch.diff 2>/dev/null; then echo "$s: PATCH DOES NOT APPLY"; continue; fi
  git -C /repo apply $d/patch.diff
  out=$(./check $pid quick 2>&1); rc=$?
  tier=quick
  if [ $rc -eq 0 ]; then out=$(./check $pid thorough 2>&1); rc=$?; tier=thorough; fi
  git -C /repo checkout -- . 
  sig=$(echo "$out" | grep -m1 "^DETAIL" | sed 's/^DETAIL property=[A-Z0-9]* signature=//' | cut -c1-200)
  echo "$s: property=$pid tier=$tier rc=$rc $sig"
  python3 - "$d/meta.json" "$pid" "$tier" "$rc" "$sig" <<'PY'
import json,sys
f,pid,tier,rc,sig=sys.argv[1:6]
m=json.load(open(f))
m['detected_by']=[{"check":pid,"tier":tier,"exit":int(rc),"first_signature":sig}] if rc=="1" else []
m['check_result_when_applied']={"check":pid,"tier":tier,"exit":int(rc)}
json.dump(m,open(f,'w'),indent=1)
PY
done
git -C /repo status --short | head -3
