#!/bin/bash
# process_seed5.sh <ID>...   round 5: confirm SEED/a -> <ID>i and SEED/b -> <ID>j in /tmp/wt5/<ID> (confirmation only)
export WTROOT=/tmp/wt5
for ID in "$@"; do
  for pair in a:i b:j; do
    V=${pair%%:*}; DV=${pair##*:}
    /verif/tools/confirm_seed.sh $ID $V $DV 2>&1 | grep -E "CONFIRMED"
  done
done
