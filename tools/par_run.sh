#!/bin/bash
# par_run.sh <seeds|benign> [names...]     ITERATION AID (not the registered procedure): runs the quick checks against
# seeded / benign changes in N parallel scratch copies of /repo and /verif/harness under /tmp/vw, so that /repo itself
# stays untouched.  Results are printed, nothing under /verif is modified.  Scratch copies are removed at the end.
# The recorded results (seeded/*/meta.json) come from tools/run_seeds.sh, which applies each change to /repo itself.
MODE=$1; shift
N=${WORKERS:-5}
DIR=/verif/seeded; [ "$MODE" = benign ] && DIR=/verif/benign
names="$@"; [ -z "$names" ] && names=$(ls $DIR | grep -E "^C[0-9][0-9]")
rm -rf /tmp/vw; mkdir -p /tmp/vw
i=0; for n in $names; do echo $n >> /tmp/vw/list.$((i % N)); i=$((i+1)); done
worker() {
  w=$1; W=/tmp/vw/w$w; mkdir -p $W/verif
  git clone -q /repo $W/repo
  rsync -a --exclude target --exclude target-lax /verif/harness $W/verif/
  cp /verif/check /verif/known_findings.json $W/verif/
  sed -i "s|/repo/|$W/repo/|g" $W/verif/harness/Cargo.toml
  [ -f /tmp/vw/list.$w ] || return
  for s in $(cat /tmp/vw/list.$w); do
    d=$DIR/$s; [ -f $d/patch.diff ] || continue
    pid=${s:0:3}
    if ! git -C $W/repo apply $d/patch.diff 2>/dev/null; then echo "$s: PATCH DOES NOT APPLY"; continue; fi
    out=$(VERIF_DIR=$W/verif $W/verif/check $pid ${TIER:-quick} 2>&1); rc=$?
    git -C $W/repo checkout -q -- .
    sig=$(echo "$out" | grep -m1 -E "^(DETAIL|MACHINERY)" | sed 's/^DETAIL property=[A-Z0-9]* signature=//' | cut -c1-160)
    note=$(echo "$out" | grep -m1 -c "^NOTE")
    echo "$s: rc=$rc lax=$note $sig"
  done
}
for w in $(seq 0 $((N-1))); do worker $w > /tmp/vw/out.$w 2>&1 & done
wait
cat /tmp/vw/out.* | grep -v "^WARNING conda" | sort
rm -rf /tmp/vw
