#!/bin/bash
# par_run.sh <seeds|benign> [names...]     ITERATION AID (not the registered procedure): runs the quick checks against
# seeded / benign changes in N parallel scratch copies of /repo and /verif/harness under ${VWDIR:-/tmp/vw}, so that /repo itself
# stays untouched.  Results are printed, nothing under /verif is modified.  Scratch copies are removed at the end.
# The recorded results (seeded/*/meta.json) come from tools/run_seeds.sh, which applies each change to /repo itself.
MODE=$1; shift
N=${WORKERS:-5}
DIR=/verif/seeded; [ "$MODE" = benign ] && DIR=/verif/benign
names="$@"; [ -z "$names" ] && names=$(ls $DIR | grep -E "^C[0-9][0-9]")
rm -rf ${VWDIR:-/tmp/vw}; mkdir -p ${VWDIR:-/tmp/vw}
i=0; for n in $names; do echo $n >> ${VWDIR:-/tmp/vw}/list.$((i % N)); i=$((i+1)); done
worker() {
  w=$1; W=${VWDIR:-/tmp/vw}/w$w; mkdir -p $W/verif
  git clone -q /repo $W/repo
  rsync -a --exclude target --exclude target-lax /verif/harness $W/verif/
  cp /verif/check /verif/known_findings.json $W/verif/
  sed -i "s|/repo/|$W/repo/|g" $W/verif/harness/Cargo.toml
  [ -f ${VWDIR:-/tmp/vw}/list.$w ] || return
  for s in $(cat ${VWDIR:-/tmp/vw}/list.$w); do
    d=$DIR/$s; [ -f $d/patch.diff ] || continue
    pid=${s:0:3}
    if ! git -C $W/repo apply $d/patch.diff 2>/dev/null; then echo "$s: PATCH DOES NOT APPLY"; continue; fi
    checks=$pid
    if [ -n "${CROSS:-}" ]; then
      # every check whose subject the patch touches (CROSS=1): a change that preserves one property may break another,
      # so alarms of the other checks have to be judged one by one
      f=$(grep "^diff --git" $d/patch.diff)
      echo "$f" | grep -q " a/amf0/" && checks="$checks C04 C12 C13 C14 C03"
      echo "$f" | grep -q "chunk_io/" && checks="$checks C01 C06 C07 C08 C15 C16 C18 C19 C02 C03 C17"
      echo "$f" | grep -q "sessions/" && checks="$checks C02 C03 C09 C10 C15 C17 C18 C19"
      echo "$f" | grep -q "handshake/" && checks="$checks C05 C11 C03"
      echo "$f" | grep -q "time.rs" && checks="$checks C20 C01 C07"
      echo "$f" | grep -q "messages/" && checks="$checks C13 C03 C09 C10 C18"
      checks=$(echo $checks | tr ' ' '\n' | sort -u | tr '\n' ' ')
      # ONLY="C03 C10": restrict the cross run to these checks (re-validation after changing just those)
      if [ -n "${ONLY:-}" ]; then checks=$(for c in $checks; do for o in $ONLY; do [ $c = $o ] && echo $c; done; done | tr '\n' ' '); fi
    fi
    for c in $checks; do
      out=$(VERIF_DIR=$W/verif $W/verif/check $c ${TIER:-quick} 2>&1); rc=$?
      sig=$(echo "$out" | grep -m1 -E "^(DETAIL|MACHINERY)" | sed 's/^DETAIL property=[A-Z0-9]* signature=//' | cut -c1-160)
      note=$(echo "$out" | grep -m1 -c "^NOTE")
      if [ -n "${CROSS:-}" ]; then echo "$s/$c: rc=$rc lax=$note $sig"; else echo "$s: rc=$rc lax=$note $sig"; fi
    done
    git -C $W/repo checkout -q -- .
  done
}
for w in $(seq 0 $((N-1))); do worker $w > ${VWDIR:-/tmp/vw}/out.$w 2>&1 & done
wait
cat ${VWDIR:-/tmp/vw}/out.* | grep -v "^WARNING conda" | sort
rm -rf ${VWDIR:-/tmp/vw}
