#!/bin/bash
# confirm_benign.sh <ID> <variant>...   confirms a property-preserving change produced in /tmp/wt/<ID>/BENIGN/<v>:
# patch applies to a clean worktree, builds, suite passes.  Copies it to /verif/benign/<ID><v>/.
ID=$1; shift; WT=${WTROOT:-/tmp/wt}/$ID
cd "$WT" || exit 2
for V in "$@"; do
  SRC=$WT/BENIGN/$V; [ -f "$SRC/patch.diff" ] || { echo "$ID$V: no patch"; continue; }
  git checkout -q -- . ; rm -rf rtmp/tests amf0/tests
  git apply "$SRC/patch.diff" || { echo "$ID$V: patch does not apply"; continue; }
  cargo nextest run --workspace --no-fail-fast --tool-config-file pb:/w/lib/nextest.toml --profile pb --test-threads 8 --offline >/tmp/benign_${ID}${V}_suite.log 2>&1; rc=$?
  summary=$(grep -E "Summary" /tmp/benign_${ID}${V}_suite.log | tail -1 | sed 's/\x1b\[[0-9;]*m//g')
  files=$(git diff --stat | tail -1)
  git checkout -q -- .
  echo "$ID$V: suite rc=$rc $summary |$files"
  if [ $rc -eq 0 ]; then
    OUT=/verif/benign/${ID}${V}; mkdir -p $OUT; cp "$SRC/patch.diff" $OUT/; cp "$SRC/notes.md" $OUT/ 2>/dev/null; cp "$SRC/demo.rs" $OUT/ 2>/dev/null
  fi
  rm -f /tmp/benign_${ID}${V}_suite.log
done
