//! Counting global allocator: per-thread live and peak bytes (for the memory clauses of C03/C14/C19).

use std::alloc::{GlobalAlloc, Layout, System};
use std::cell::Cell;

pub struct Counting;

thread_local! {
    static LIVE: Cell<isize> = const { Cell::new(0) };
    static PEAK: Cell<isize> = const { Cell::new(0) };
}

#[inline]
fn add(n: isize) {
    let _ = LIVE.try_with(|l| {
        let v = l.get() + n;
        l.set(v);
        if n > 0 {
            let _ = PEAK.try_with(|p| {
                if v > p.get() {
                    p.set(v);
                }
            });
        }
    });
}

unsafe impl GlobalAlloc for Counting {
    unsafe fn alloc(&self, layout: Layout) -> *mut u8 {
        let p = System.alloc(layout);
        if !p.is_null() {
            add(layout.size() as isize);
        }
        p
    }
    unsafe fn dealloc(&self, ptr: *mut u8, layout: Layout) {
        System.dealloc(ptr, layout);
        add(-(layout.size() as isize));
    }
    unsafe fn alloc_zeroed(&self, layout: Layout) -> *mut u8 {
        let p = System.alloc_zeroed(layout);
        if !p.is_null() {
            add(layout.size() as isize);
        }
        p
    }
    unsafe fn realloc(&self, ptr: *mut u8, layout: Layout, new_size: usize) -> *mut u8 {
        let p = System.realloc(ptr, layout, new_size);
        if !p.is_null() {
            add(new_size as isize - layout.size() as isize);
        }
        p
    }
}

/// Starts a measurement on this thread: returns the live byte count and resets the peak to it.
pub fn begin() -> isize {
    let live = LIVE.with(|l| l.get());
    PEAK.with(|p| p.set(live));
    live
}

/// Peak growth (bytes) on this thread since `begin()` returned `base`.
pub fn peak_since(base: isize) -> usize {
    let p = PEAK.with(|p| p.get());
    (p - base).max(0) as usize
}
