//! Small helpers: hashing, payload patterns, panic capture.

use std::collections::hash_map::DefaultHasher;
use std::hash::Hasher;
use std::panic::{catch_unwind, AssertUnwindSafe};

pub fn hash64(bytes: &[u8], salt: u64) -> u64 {
    // DefaultHasher::new() is SipHash-1-3 with fixed keys: deterministic across runs.
    let mut h = DefaultHasher::new();
    h.write_u64(salt);
    h.write(bytes);
    h.finish()
}

pub fn hash128(bytes: &[u8]) -> u128 {
    ((hash64(bytes, 0x1111) as u128) << 64) | (hash64(bytes, 0x2222) as u128)
}

/// Payload bytes that identify the message they belong to and their position in it, so that
/// misplaced, mixed or duplicated bytes are visible.
pub fn pattern(tag: u32, len: usize) -> Vec<u8> {
    let mut v = Vec::with_capacity(len);
    let mut x = (tag as u64).wrapping_mul(0x9E3779B97F4A7C15) ^ (len as u64).wrapping_mul(0xD6E8FEB86659FD93);
    for i in 0..len {
        if i % 8 == 0 {
            x ^= x >> 31;
            x = x.wrapping_mul(0xBF58476D1CE4E5B9).wrapping_add(i as u64 + 1);
            x ^= x >> 29;
        }
        v.push((x >> ((i % 8) * 8)) as u8);
    }
    v
}

pub fn hex(bytes: &[u8]) -> String {
    let mut s = String::with_capacity(bytes.len() * 2);
    for b in bytes.iter().take(512) {
        s.push_str(&format!("{:02x}", b));
    }
    if bytes.len() > 512 {
        s.push_str(&format!("..(+{} bytes)", bytes.len() - 512));
    }
    s
}

pub fn unhex(s: &str) -> Vec<u8> {
    let s = s.as_bytes();
    let mut v = Vec::new();
    let mut i = 0;
    while i + 1 < s.len() {
        let h = (s[i] as char).to_digit(16);
        let l = (s[i + 1] as char).to_digit(16);
        match (h, l) {
            (Some(h), Some(l)) => v.push((h * 16 + l) as u8),
            _ => break,
        }
        i += 2;
    }
    v
}

thread_local! {
    static GUARD_DEPTH: std::cell::Cell<u32> = const { std::cell::Cell::new(0) };
    static BUSY_SLOT: usize = NEXT_SLOT.fetch_add(1, std::sync::atomic::Ordering::Relaxed) % BUSY_SLOTS;
}

/// One slot per thread: 0 = not inside a guarded library call, otherwise milliseconds since process start + 1
/// at which the outermost guarded call began (read by the global hang watchdog).
pub const BUSY_SLOTS: usize = 512;
static NEXT_SLOT: std::sync::atomic::AtomicUsize = std::sync::atomic::AtomicUsize::new(0);
pub static BUSY: [std::sync::atomic::AtomicU64; BUSY_SLOTS] = [const { std::sync::atomic::AtomicU64::new(0) }; BUSY_SLOTS];
static T0: std::sync::OnceLock<std::time::Instant> = std::sync::OnceLock::new();

/// Coarse clock: milliseconds since process start, refreshed by the watchdog thread about every 200 ms (reading
/// the real clock in every guarded call would cost more than many of the calls themselves).
pub static COARSE_MS: std::sync::atomic::AtomicU64 = std::sync::atomic::AtomicU64::new(0);

pub fn now_ms() -> u64 {
    T0.get_or_init(std::time::Instant::now).elapsed().as_millis() as u64
}

pub fn coarse_ms() -> u64 {
    COARSE_MS.load(std::sync::atomic::Ordering::Relaxed)
}

/// Install a panic hook that stays silent for panics inside `guarded` (those are captured and
/// reported as verdicts) and reports any other panic as a machinery error.
pub fn silence_panics() {
    std::panic::set_hook(Box::new(|info| {
        let inside = GUARD_DEPTH.try_with(|d| d.get() > 0).unwrap_or(false);
        if !inside {
            eprintln!("MACHINERY-ERROR: the harness itself panicked: {}", info);
        }
    }));
}

/// Runs `f`, converting a panic into `Err(message)`.
pub fn guarded<T, F: FnOnce() -> T>(f: F) -> Result<T, String> {
    let outermost = GUARD_DEPTH.with(|d| {
        d.set(d.get() + 1);
        d.get() == 1
    });
    if outermost {
        BUSY_SLOT.with(|i| BUSY[*i].store(coarse_ms() + 1, std::sync::atomic::Ordering::Relaxed));
    }
    let r = catch_unwind(AssertUnwindSafe(f));
    if outermost {
        BUSY_SLOT.with(|i| BUSY[*i].store(0, std::sync::atomic::Ordering::Relaxed));
    }
    GUARD_DEPTH.with(|d| d.set(d.get().saturating_sub(1)));
    match r {
        Ok(v) => Ok(v),
        Err(e) => {
            let msg = if let Some(s) = e.downcast_ref::<&str>() {
                s.to_string()
            } else if let Some(s) = e.downcast_ref::<String>() {
                s.clone()
            } else {
                "panic (non-string payload)".to_string()
            };
            Err(msg)
        }
    }
}

/// Normalises a panic message into a short signature component (strips numbers).
pub fn panic_class(msg: &str) -> String {
    let mut out = String::new();
    let mut last_hash = false;
    for c in msg.chars().take(80) {
        if c.is_ascii_digit() {
            if !last_hash {
                out.push('#');
            }
            last_hash = true;
        } else if c.is_ascii_alphanumeric() {
            out.push(c);
            last_hash = false;
        } else {
            if !out.ends_with('_') {
                out.push('_');
            }
            last_hash = false;
        }
    }
    out
}
