//! C15 — results do not depend on how the input byte stream is split across calls.
//! E1: for each stream the graph with nodes (offset, concrete state, outputs so far) and an edge for
//! EVERY call length k from every node decides all 2^(L-1) partitions (any partition is a path).

use super::sess::*;
use crate::ev::Run;
use crate::refmodel::amf0::V;
use crate::refmodel::chunk::{Msg, SpecEncoder};
use crate::refmodel::msg::{self as r2, M};
use crate::util::{guarded, hash128, hex, pattern};
use bytes::Bytes;
use rayon::prelude::*;
use rml_rtmp::chunk_io::{ChunkDeserializer, ChunkSerializer};
use rml_rtmp::messages::MessagePayload;
use rml_rtmp::time::RtmpTimestamp;
use serde_json::{json, Value};
use std::collections::HashMap;
use std::sync::atomic::{AtomicU64, Ordering};

/// Anything that consumes a byte stream in calls and produces observations.
pub trait Consumer: Clone + Send + Sync {
    /// Feeds one call; returns (observations produced by this call, error?).  Observations are
    /// opaque strings compared for equality.
    fn call(&mut self, bytes: &[u8]) -> (Vec<String>, Option<String>);
    fn fingerprint(&self, out: &mut Vec<u8>);
}

#[derive(Clone)]
pub struct DeCons {
    pub de: ChunkDeserializer,
}

impl Consumer for DeCons {
    fn call(&mut self, bytes: &[u8]) -> (Vec<String>, Option<String>) {
        let mut obs = Vec::new();
        let mut input: &[u8] = bytes;
        loop {
            let r = guarded(|| self.de.get_next_message(input));
            input = &[];
            match r {
                Err(p) => return (obs, Some(format!("panic: {}", p))),
                Ok(Err(e)) => return (obs, Some(format!("{:?}", e))),
                Ok(Ok(None)) => return (obs, None),
                Ok(Ok(Some(m))) => {
                    if m.type_id == 1 && m.data.len() >= 4 {
                        let n = u32::from_be_bytes([m.data[0], m.data[1], m.data[2], m.data[3]]);
                        if let Err(e) = self.de.set_max_chunk_size(n as usize) {
                            return (obs, Some(format!("{:?}", e)));
                        }
                    }
                    obs.push(format!("type {} msid {} ts {} len {} hash {:016x}", m.type_id, m.message_stream_id, m.timestamp.value, m.data.len(), crate::util::hash64(&m.data, 1)));
                }
            }
        }
    }
    fn fingerprint(&self, out: &mut Vec<u8>) {
        self.de.verif_fingerprint(out);
    }
}

#[derive(Clone)]
pub struct ServerCons {
    pub h: ServerH,
    pub de: ChunkDeserializer,
}

fn obs_of_outs(outs: Vec<Out>, obs: &mut Vec<String>) {
    for o in outs {
        if matches!(o.m, M::Ack(_)) {
            continue; // per-call by C17, cannot be partition independent
        }
        obs.push(format!("out msid {} {:?}", o.msid, o.m));
    }
}

impl Consumer for ServerCons {
    fn call(&mut self, bytes: &[u8]) -> (Vec<String>, Option<String>) {
        let mut o = Obs::empty();
        self.h.input(bytes, &mut o);
        let mut obs: Vec<String> = Vec::new();
        for (kind, idx) in o.order.iter() {
            match kind {
                0 => match decode_with_lib(&mut self.de, std::slice::from_ref(&o.packets[*idx])) {
                    Ok(outs) => obs_of_outs(outs, &mut obs),
                    Err(e) => return (obs, Some(format!("undecodable output: {}", e))),
                },
                1 => obs.push(format!("event {:?}", o.events[*idx])),
                _ => obs.push("unhandleable message".into()),
            }
        }
        let err = o.panicked.map(|p| format!("panic: {}", p)).or(o.err);
        (obs, err)
    }
    fn fingerprint(&self, out: &mut Vec<u8>) {
        // the acknowledgement counter (and with it the serializer's header history) legitimately
        // depends on call boundaries; acknowledgements are excluded from the observations
        out.extend_from_slice(&self.h.fp_partition());
    }
}

#[derive(Clone)]
pub struct ClientCons {
    pub h: ClientH,
    pub de: ChunkDeserializer,
}

impl Consumer for ClientCons {
    fn call(&mut self, bytes: &[u8]) -> (Vec<String>, Option<String>) {
        let mut o = Obs::empty();
        self.h.input(bytes, &mut o);
        let mut obs: Vec<String> = Vec::new();
        for (kind, idx) in o.order.iter() {
            match kind {
                0 => match decode_with_lib(&mut self.de, std::slice::from_ref(&o.packets[*idx])) {
                    Ok(outs) => obs_of_outs(outs, &mut obs),
                    Err(e) => return (obs, Some(format!("undecodable output: {}", e))),
                },
                1 => obs.push(format!("event {:?}", o.events[*idx])),
                _ => obs.push("unhandleable message".into()),
            }
        }
        let err = o.panicked.map(|p| format!("panic: {}", p)).or(o.err);
        (obs, err)
    }
    fn fingerprint(&self, out: &mut Vec<u8>) {
        out.extend_from_slice(&self.h.fp_partition());
    }
}

struct Node<C> {
    c: C,
    obs: Vec<String>,
    errored: bool,
    /// offsets at which calls ended on the path that first reached this node
    cuts: Vec<usize>,
    /// number of observations that existed before the last call started
    obs_before_last_call: usize,
}

pub struct PartStats {
    pub edges: u64,
    pub nodes: u64,
    pub max_nodes_per_offset: usize,
    pub errored: bool,
}

pub enum PartOutcome {
    Ok(PartStats),
    /// (signature suffix, detail, partitions)
    Differ(String, String, Value, PartStats),
}

/// Which call boundaries are explored.
#[derive(Clone, Debug)]
pub enum Cuts {
    /// every offset: decides all 2^(L-1) partitions
    Full,
    /// long streams: every call length up to 24, multiples of 61 and "the rest"
    Sparse,
    /// very long streams (large chunks): calls end only at the listed offsets (all subsets of them)
    Marks(Vec<usize>),
}

impl From<bool> for Cuts {
    fn from(full: bool) -> Cuts {
        if full { Cuts::Full } else { Cuts::Sparse }
    }
}

/// Offsets around every chunk of a (valid) stream: chunk start, one byte into the header, end of the header,
/// one byte into the payload, the middle of the payload, one byte before the chunk ends.
pub fn chunk_marks(stream: &[u8]) -> Vec<usize> {
    let mut sp = crate::refmodel::chunk::SpecDecoder::new();
    let _ = sp.push(stream);
    let mut marks: Vec<usize> = Vec::new();
    for c in sp.chunks.iter() {
        let end = c.start + c.header_len + c.payload_len;
        for m in [c.start, c.start + 1, c.start + c.header_len, c.start + c.header_len + 1, c.start + c.header_len + c.payload_len / 2, end.saturating_sub(1)] {
            if m > 0 && m < stream.len() {
                marks.push(m);
            }
        }
    }
    marks.sort();
    marks.dedup();
    // many-chunk streams: the marks around the first and the last four chunks and about forty in between
    if marks.len() > 96 {
        let n = marks.len();
        let step = (n - 48) / 40 + 1;
        marks = marks.iter().enumerate().filter(|(i, _)| *i < 24 || *i + 24 >= n || i % step == 0).map(|(_, m)| *m).collect();
    }
    marks
}

/// Builds the all-partitions graph of `stream` from `init`.
pub fn partition_graph<C: Consumer, M: Into<Cuts>>(init: &C, stream: &[u8], full: M, mut tolerate_dropped: Option<&mut Option<(String, Value)>>) -> PartOutcome {
    let cuts_mode: Cuts = full.into();
    let full = matches!(cuts_mode, Cuts::Full);
    let mark_set: Option<std::collections::BTreeSet<usize>> = match &cuts_mode { Cuts::Marks(m) => Some(m.iter().cloned().collect()), _ => None };
    let l = stream.len();
    let mut levels: Vec<HashMap<u128, Node<C>>> = (0..=l).map(|_| HashMap::new()).collect();
    let mut fp = Vec::new();
    init.fingerprint(&mut fp);
    levels[0].insert(hash128(&fp), Node { c: init.clone(), obs: Vec::new(), errored: false, cuts: Vec::new(), obs_before_last_call: 0 });
    let mut stats = PartStats { edges: 0, nodes: 1, max_nodes_per_offset: 1, errored: false };
    let mut first_error: Option<(usize, Vec<usize>, String)> = None;
    // which call lengths are taken from an offset: all (full) or all near message/chunk-agnostic marks
    for n in 0..l {
        let nodes: Vec<Node<C>> = std::mem::take(&mut levels[n]).into_values().collect();
        for node in nodes.iter() {
            if node.errored {
                continue;
            }
            let ks: Vec<usize> = match &mark_set {
                Some(ms) => ms.range(n + 1..).map(|m| m - n).filter(|k| *k < l - n).chain(std::iter::once(l - n)).collect(),
                None => (1..=(l - n)).collect(),
            };
            for k in ks {
                if !full && mark_set.is_none() {
                    // long streams: every k up to 24, then strides, and always "the rest"
                    if !(k <= 24 || k == l - n || k % 61 == 0) {
                        continue;
                    }
                }
                let mut c = node.c.clone();
                let (o, err) = c.call(&stream[n..n + k]);
                stats.edges += 1;
                let mut obs = node.obs.clone();
                let before = obs.len();
                obs.extend(o);
                let mut fp = Vec::new();
                c.fingerprint(&mut fp);
                fp.push(err.is_some() as u8);
                for s in obs.iter() {
                    fp.extend_from_slice(s.as_bytes());
                    fp.push(0);
                }
                let key = hash128(&fp);
                let m = n + k;
                let mut cuts = node.cuts.clone();
                cuts.push(m);
                if err.is_some() {
                    stats.errored = true;
                    if first_error.is_none() {
                        first_error = Some((m, cuts.clone(), err.clone().unwrap_or_default()));
                    }
                }
                // compare with what other partitions observed at this offset
                if let Some(other) = levels[m].values().next() {
                    let same = other.obs == obs && other.errored == err.is_some();
                    if !same {
                        let (sig, detail) = classify(&other.obs, other.errored, other.obs_before_last_call, &obs, err.is_some(), before, m);
                        if sig == "results-of-the-failing-call-dropped" && tolerate_dropped.is_some() {
                            // recorded once per stream; errored nodes are terminal, keep exploring the rest
                            if let Some(slot) = tolerate_dropped.as_mut() {
                                if slot.is_none() {
                                    **slot = Some((detail, json!({"stream": hex(stream), "offset": m, "partition_a_call_ends": other.cuts, "a_observations": other.obs,
                                        "partition_b_call_ends": cuts, "b_observations": obs})));
                                }
                            }
                            continue;
                        }
                        let parts = json!({
                            "stream": hex(stream), "offset": m,
                            "partition_a_call_ends": other.cuts, "a_observations": other.obs, "a_error": other.errored,
                            "partition_b_call_ends": cuts, "b_observations": obs, "b_error": err,
                        });
                        return PartOutcome::Differ(sig, detail, parts, stats);
                    }
                }
                if !levels[m].contains_key(&key) {
                    stats.nodes += 1;
                    levels[m].insert(key, Node { c, obs, errored: err.is_some(), cuts, obs_before_last_call: before });
                    if levels[m].len() > stats.max_nodes_per_offset {
                        stats.max_nodes_per_offset = levels[m].len();
                    }
                    if levels[m].len() > 64 {
                        return PartOutcome::Differ("state-explosion".into(), format!("more than 64 distinct concrete states after {} bytes", m), json!({"stream": hex(stream)}), stats);
                    }
                }
            }
        }
    }
    // some partitions report an error although delivering the whole stream in other ways completes
    // without one (or vice versa): the error does not belong to the stream but to the cut
    let completes_somewhere = levels[l].values().any(|n| !n.errored);
    if completes_somewhere {
        if let Some((m, cuts, err)) = first_error {
            let good = levels[l].values().find(|n| !n.errored).unwrap();
            let parts = json!({"stream": hex(stream), "failing_partition_call_ends": cuts, "error_after_bytes": m, "error": err,
                "complete_partition_call_ends": good.cuts, "observations_of_complete_partition": good.obs});
            return PartOutcome::Differ("error-depends-on-the-cut".into(), format!("a partition whose calls end at {:?} reports an error ({}) after {} bytes, while the partition {:?} consumes all {} bytes without error", cuts, err.chars().take(120).collect::<String>(), m, good.cuts, l), parts, stats);
        }
    }
    PartOutcome::Ok(stats)
}

fn classify(a: &[String], a_err: bool, a_before: usize, b: &[String], b_err: bool, b_before: usize, offset: usize) -> (String, String) {
    // the known shape: both partitions fail, and the one whose failing call started earlier lacks
    // exactly the results of the messages that were completed inside that failing call
    if a_err && b_err {
        let (short, long, short_before) = if a.len() <= b.len() { (a, b, a_before) } else { (b, a, b_before) };
        if long.len() > short.len() && long[..short.len()] == short[..] && short.len() == short_before {
            return (
                "results-of-the-failing-call-dropped".into(),
                format!("after {} bytes every partition reports the error, but a partition that delivers the failing message in the same call as earlier messages loses their {} result(s): {:?}", offset, long.len() - short.len(), &long[short.len()..]),
            );
        }
    }
    if a_err != b_err {
        return ("error-position".into(), format!("after {} bytes one partition has reported an error and another has not", offset));
    }
    ("observations-differ".into(), format!("after {} bytes two partitions have produced different results: {:?} vs {:?}", offset, a, b))
}

// ---- stream generators -------------------------------------------------------------------------------

fn lib_streams(thorough: bool) -> Vec<(String, Vec<u8>)> {
    // message sequences of length <= 3 over a small alphabet through the real serializer
    let mut alpha: Vec<(u8, u32, u32, usize, bool)> = Vec::new(); // type, msid, ts, len, force
    for &(ty, msid) in &[(8u8, 1u32), (20, 1), (9, 2)] {
        for &ts in &[0u32, 5, 0xFF_FFFF, 0x1FF_FFFE] {
            for &len in &[0usize, 3, 5] {
                alpha.push((ty, msid, ts, len, false));
            }
        }
    }
    alpha.push((8, 1, 10, 3, true));
    alpha.push((8, 1, 0xFFFF_FFFF, 5, false));
    let mut out = Vec::new();
    let n = alpha.len();
    let seqs: Vec<Vec<usize>> = {
        let mut v: Vec<Vec<usize>> = Vec::new();
        for a in 0..n {
            v.push(vec![a]);
            for b in 0..n {
                v.push(vec![a, b]);
                if thorough {
                    for c in (0..n).step_by(3) {
                        v.push(vec![a, b, c]);
                    }
                } else if (a + b) % 7 == 0 {
                    v.push(vec![a, b, (a * 3 + b) % n]);
                }
            }
        }
        v
    };
    for (si, seq) in seqs.iter().enumerate() {
        for &cs in &[2u32, 128] {
            if cs == 128 && si % 4 != 0 {
                continue;
            }
            let mut ser = ChunkSerializer::new();
            let mut bytes = Vec::new();
            if cs != 128 {
                bytes.extend(ser.set_max_chunk_size(cs, RtmpTimestamp::new(0)).unwrap().bytes);
            }
            for &i in seq {
                let (ty, msid, ts, len, force) = alpha[i];
                let p = MessagePayload { timestamp: RtmpTimestamp::new(ts), type_id: ty, message_stream_id: msid, data: Bytes::from(pattern(i as u32, len)) };
                bytes.extend(ser.serialize(&p, force, false).unwrap().bytes);
            }
            out.push((format!("library serializer, chunk size {}, messages {:?}", cs, seq.iter().map(|i| alpha[*i]).collect::<Vec<_>>()), bytes));
        }
    }
    out
}

/// Streams whose chunks are far larger than anything the exhaustive families use (thresholds such as 4 KiB or
/// 64 KiB in buffering code): library-serialized, explored with call boundaries at marks around every chunk.
fn large_chunk_streams(thorough: bool) -> Vec<(String, Vec<u8>)> {
    let mut out = Vec::new();
    let sizes: Vec<u32> = if thorough { vec![1_000, 4_096, 4_097, 5_000, 65_536, 70_000] } else { vec![4_097, 70_000] };
    for cs in sizes {
        let mut ser = ChunkSerializer::new();
        let mut bytes = ser.set_max_chunk_size(cs, RtmpTimestamp::new(0)).unwrap().bytes;
        let lens = [cs as usize * 5 / 2, 10, cs as usize + 1, cs as usize];
        for (i, len) in lens.iter().enumerate() {
            let p = MessagePayload { timestamp: RtmpTimestamp::new(40 * i as u32), type_id: if i == 1 { 8 } else { 9 }, message_stream_id: 1, data: Bytes::from(pattern(100 + i as u32, *len)) };
            bytes.extend(ser.serialize(&p, false, false).unwrap().bytes);
        }
        out.push((format!("library serializer, chunk size {}, messages of {:?} bytes", cs, lens), bytes));
    }
    // many chunks in one message (per-call work budgets): the default chunk size and a long message
    {
        let mut ser = ChunkSerializer::new();
        let mut bytes = Vec::new();
        for (i, len) in [70_000usize, 5, 66_000].iter().enumerate() {
            let p = MessagePayload { timestamp: RtmpTimestamp::new(40 * i as u32), type_id: if i == 1 { 8 } else { 9 }, message_stream_id: 1, data: Bytes::from(pattern(200 + i as u32, *len)) };
            bytes.extend(ser.serialize(&p, false, false).unwrap().bytes);
        }
        out.push(("library serializer, chunk size 128, messages of [70000, 5, 66000] bytes (547 and 516 chunks)".to_string(), bytes));
    }
    out
}

fn foreign_streams(thorough: bool) -> Vec<(String, Vec<u8>)> {
    let mut out = Vec::new();
    let csids: Vec<(u32, u8)> = vec![(3, 1), (64, 2), (320, 3), (64, 3)];
    let tss: Vec<u32> = vec![0, 7, 0xFF_FFFF, 0x100_0000, 0x200_0000];
    for &(csid, form) in csids.iter() {
        for &t0 in tss.iter() {
            for &t1 in tss.iter() {
                for &len in &[0usize, 3, 5] {
                    let m0 = Msg { type_id: 9, msid: 1, ts: t0, payload: pattern(1, len) };
                    let m1 = Msg { type_id: 9, msid: 1, ts: t1, payload: pattern(2, len) };
                    let mut probe = SpecEncoder::new();
                    probe.chunk_size = 2;
                    let _ = probe.encode(csid, form, 0, &m0);
                    for f1 in probe.legal_fmts(csid, &m1) {
                        let mut p2 = probe.clone();
                        let _ = p2.encode(csid, form, f1, &m1);
                        let m2 = Msg { type_id: 9, msid: 1, ts: t1.wrapping_add(t1.wrapping_sub(t0)), payload: pattern(3, len) };
                        let f2s = p2.legal_fmts(csid, &m2);
                        for f2 in f2s {
                            if !thorough && f2 != 3 && f2 != 0 {
                                continue;
                            }
                            let mut e = SpecEncoder::new();
                            let mut bytes: Vec<u8> = e.encode(2, 1, 0, &Msg { type_id: 1, msid: 0, ts: 0, payload: 2u32.to_be_bytes().to_vec() }).concat();
                            bytes.extend(e.encode(csid, form, 0, &m0).concat());
                            bytes.extend(e.encode(csid, form, f1, &m1).concat());
                            bytes.extend(e.encode(csid, form, f2, &m2).concat());
                            out.push((format!("foreign encoder csid {} form {} fmts 0,{},{} ts {},{},{} len {}", csid, form, f1, f2, t0, t1, m2.ts, len), bytes));
                        }
                    }
                }
            }
        }
    }
    // interleaved messages on two chunk streams
    for &len in &[3usize, 4, 5] {
        for order in [[0usize, 1, 0, 1, 0, 1], [0, 0, 1, 1, 0, 1], [1, 0, 0, 0, 1, 1]] {
            let mut e = SpecEncoder::new();
            let mut bytes: Vec<u8> = e.encode(2, 1, 0, &Msg { type_id: 1, msid: 0, ts: 0, payload: 2u32.to_be_bytes().to_vec() }).concat();
            let ma = Msg { type_id: 8, msid: 1, ts: 0x100_0000, payload: pattern(11, len) };
            let mb = Msg { type_id: 9, msid: 2, ts: 9, payload: pattern(12, len) };
            let mut fa = e.begin(3, 1, 0, &ma);
            let mut fb = e.begin(64, 2, 0, &mb);
            for &w in order.iter() {
                let f = if w == 0 { &mut fa } else { &mut fb };
                if !f.done() {
                    bytes.extend(f.next_chunk(2));
                }
            }
            while !fa.done() {
                bytes.extend(fa.next_chunk(2));
            }
            while !fb.done() {
                bytes.extend(fb.next_chunk(2));
            }
            out.push((format!("foreign encoder, two interleaved messages of {} bytes, order {:?}", len, order), bytes));
        }
    }
    out
}

fn invalid_streams() -> Vec<(String, Vec<u8>)> {
    let mut out = Vec::new();
    let mut e = SpecEncoder::new();
    let good: Vec<u8> = e.encode(3, 1, 0, &Msg { type_id: 8, msid: 1, ts: 5, payload: pattern(1, 3) }).concat();
    let good2: Vec<u8> = e.encode(3, 1, 2, &Msg { type_id: 8, msid: 1, ts: 9, payload: pattern(2, 3) }).concat();
    let tails: Vec<(&str, Vec<u8>)> = vec![
        ("fmt 3 chunk on a csid never seen", vec![0xC4, 1, 2, 3]),
        ("fmt 1 chunk on a csid never seen (2-byte form)", vec![0x40, 0x05, 0, 0, 1, 0, 0, 1, 8, 0xAA]),
        ("fmt 2 chunk on a csid never seen (3-byte form)", vec![0x81, 0x00, 0x01, 0, 0, 1, 0xAA]),
        ("shrinking message length mid-message", vec![0x05, 0, 0, 1, 0, 0, 0xC8, 8, 1, 0, 0, 0]),
    ];
    for (name, tail) in tails {
        let mut b = good.clone();
        b.extend(&good2);
        b.extend(&tail);
        if name.starts_with("shrinking") {
            b.extend(std::iter::repeat(0x11).take(128));
            b.extend_from_slice(&[0x05, 0, 0, 1, 0, 0, 0x02, 8, 1, 0, 0, 0, 0x22, 0x22]);
        }
        out.push((format!("two valid messages then {}", name), b));
    }
    out
}

// ---- session tails ----------------------------------------------------------------------------------------

fn server_state(kind: u8) -> ServerCons {
    let (mut h, o) = ServerH::new(default_server_cfg(), 1000).expect("server");
    let mut de = ChunkDeserializer::new();
    decode_with_lib(&mut de, &o.packets).expect("decode");
    let mut drive = |acts: Vec<SAct>| {
        for a in acts {
            let o = h.step(&a);
            assert!(o.ok(), "preparing server state: {:?} -> {:?}", a, o.err);
            decode_with_lib(&mut de, &o.packets).expect("decode");
        }
    };
    if kind >= 1 {
        drive(vec![SAct::Connect { tx: 1.0, app: "a".into() }, SAct::Accept { id: 0 }, SAct::CreateStream { tx: 2.0 }, SAct::CreateStream { tx: 3.0 }]);
    }
    if kind >= 2 {
        drive(vec![SAct::Publish { sid: 1, key: "k1".into(), mode: "live".into() }, SAct::Accept { id: 1 }]);
    }
    if kind >= 3 {
        drive(vec![SAct::Play { sid: 2, key: "k2".into() }, SAct::Accept { id: 2 }]);
    }
    ServerCons { h, de }
}

fn server_tails(h: &ServerH) -> Vec<(String, Vec<u8>)> {
    let mut out = Vec::new();
    let scripts: Vec<(&str, Vec<SAct>)> = vec![
        ("media, metadata, ping, close", vec![
            SAct::Audio { sid: 1, ts: 5, len: 5 }, SAct::Meta { sid: 1, variant: 7 }, SAct::Ping { ts: 77 }, SAct::Video { sid: 1, ts: 0x100_0000, len: 0 },
            SAct::CloseStream { sid: 1 }, SAct::Audio { sid: 1, ts: 9, len: 2 },
        ]),
        ("commands", vec![
            SAct::Connect { tx: 4.0, app: "b".into() }, SAct::CreateStream { tx: 5.0 }, SAct::Publish { sid: 2, key: "k3".into(), mode: "record".into() },
            SAct::Play { sid: 1, key: "k4".into() }, SAct::DeleteStream { sid: 2 }, SAct::UnknownCommand, SAct::Ping { ts: 1 }, SAct::Ping { ts: 2 }, SAct::Ping { ts: 2 },
        ]),
        ("window announcement then media", vec![
            SAct::Raw { msid: 0, type_id: 5, body: vec![0, 0, 0, 40] }, SAct::Audio { sid: 1, ts: 5, len: 50 }, SAct::Ping { ts: 3 }, SAct::Video { sid: 1, ts: 6, len: 40 },
        ]),
        ("acknowledgements from the peer, back to back", vec![
            SAct::Raw { msid: 0, type_id: 3, body: vec![0, 3, 0xD0, 0x90] }, SAct::Raw { msid: 0, type_id: 3, body: vec![0, 7, 0xA1, 0x20] }, SAct::Raw { msid: 0, type_id: 3, body: vec![0, 0x0B, 0x71, 0xB0] },
            SAct::Ping { ts: 4 }, SAct::Raw { msid: 0, type_id: 3, body: vec![0, 0x0F, 0x42, 0x40] },
        ]),
        ("abort messages between commands", vec![
            SAct::UnknownCommand, SAct::Raw { msid: 0, type_id: 2, body: vec![0, 0, 0, 3] }, SAct::Ping { ts: 9 }, SAct::Raw { msid: 0, type_id: 2, body: vec![0, 0, 0, 2] }, SAct::UnknownCommand, SAct::Ping { ts: 10 },
        ]),
        ("chunk size change then large media", vec![
            SAct::Raw { msid: 0, type_id: 1, body: vec![0, 0, 0, 16] }, SAct::Audio { sid: 1, ts: 5, len: 40 }, SAct::Ping { ts: 3 },
        ]),
    ];
    for (name, acts) in scripts {
        let mut hh = h.clone();
        let mut bytes = Vec::new();
        for a in acts.iter() {
            bytes.extend(hh.peer_bytes(a).expect("peer action"));
        }
        out.push((name.to_string(), bytes));
    }
    // invalid tails: a valid ping followed by a message that fails to decode
    let invalid: Vec<(&str, SAct)> = vec![
        ("ping then a command body that is not AMF0", SAct::Raw { msid: 0, type_id: 20, body: vec![0xFF, 1, 2] }),
        ("ping then connect without an application name", SAct::ConnectMalformed { shape: 0 }),
        ("ping then a user control message with an unknown event", SAct::Raw { msid: 0, type_id: 4, body: vec![0, 99, 0, 0, 0, 0] }),
        ("ping then SetChunkSize above 2^31-1", SAct::Raw { msid: 0, type_id: 1, body: vec![0x80, 0, 0, 1] }),
    ];
    for (name, bad) in invalid {
        let mut hh = h.clone();
        let mut bytes = hh.peer_bytes(&SAct::Ping { ts: 42 }).unwrap();
        bytes.extend(hh.peer_bytes(&SAct::Audio { sid: 1, ts: 1, len: 2 }).unwrap());
        bytes.extend(hh.peer_bytes(&bad).unwrap());
        bytes.extend(hh.peer_bytes(&SAct::Ping { ts: 43 }).unwrap());
        out.push((format!("INVALID: {}", name), bytes));
    }
    out
}

fn client_state(kind: u8) -> ClientCons {
    let (mut h, _) = ClientH::new(default_client_cfg(), 1000).expect("client");
    let mut de = ChunkDeserializer::new();
    let prefix = super::c10::prefixes();
    let acts = match kind {
        0 => prefix[1].1.clone(),
        1 => prefix[3].1.clone(),
        _ => prefix[5].1.clone(),
    };
    for a in acts {
        let o = h.step(&a);
        assert!(o.ok(), "preparing client state: {:?} -> {:?}", a, o.err);
        decode_with_lib(&mut de, &o.packets).expect("decode");
    }
    ClientCons { h, de }
}

fn client_tails(h: &ClientH, playing: bool) -> Vec<(String, Vec<u8>)> {
    let mut out = Vec::new();
    let mut scripts: Vec<(&str, Vec<CAct>)> = vec![
        ("results, status, ping", vec![
            CAct::Result { tx: 99.0, stream: Some(3.0) }, CAct::OnStatus { code: "NetStream.Play.Reset".into() }, CAct::Ping { ts: 5 }, CAct::Ping { ts: 6 }, CAct::Ping { ts: 6 }, CAct::Ack { n: 7 }, CAct::UnknownCommand,
            CAct::Meta { msid: 5, variant: 3 }, CAct::Error { tx: 98.0 },
        ]),
        ("abort and bandwidth messages between commands", vec![
            CAct::UnknownCommand, CAct::Raw { msid: 0, type_id: 2, body: vec![0, 0, 0, 3] }, CAct::Ping { ts: 9 }, CAct::Raw { msid: 0, type_id: 6, body: vec![0, 0, 1, 0, 2] }, CAct::UnknownCommand, CAct::Ping { ts: 10 },
        ]),
        ("window announcement, chunk size, ping", vec![
            CAct::Raw { msid: 0, type_id: 5, body: vec![0, 0, 0, 30] }, CAct::Raw { msid: 0, type_id: 1, body: vec![0, 0, 0, 9] }, CAct::Meta { msid: 5, variant: 15 }, CAct::Ping { ts: 6 },
        ]),
    ];
    if playing {
        scripts.push(("media on the active and another stream", vec![
            CAct::Audio { msid: 5, ts: 5, len: 5 }, CAct::Video { msid: 5, ts: 0x100_0000, len: 0 }, CAct::Video { msid: 42, ts: 1, len: 3 }, CAct::Meta { msid: 5, variant: 7 }, CAct::Audio { msid: 5, ts: 0x200_0000, len: 130 },
        ]));
    }
    for (name, acts) in scripts {
        let mut hh = h.clone();
        let mut bytes = Vec::new();
        for a in acts.iter() {
            bytes.extend(hh.peer_bytes(a).expect("peer action"));
        }
        out.push((name.to_string(), bytes));
    }
    let invalid: Vec<(&str, CAct)> = vec![
        ("ping then onStatus without arguments", CAct::OnStatusMalformed { shape: 0 }),
        ("ping then a command body that is not AMF0", CAct::Raw { msid: 0, type_id: 20, body: vec![0xFF, 1, 2] }),
        ("ping then audio while not playing / or fine", CAct::Audio { msid: 5, ts: 1, len: 1 }),
    ];
    for (name, bad) in invalid {
        let mut hh = h.clone();
        let mut bytes = hh.peer_bytes(&CAct::Ping { ts: 42 }).unwrap();
        bytes.extend(hh.peer_bytes(&CAct::Ack { n: 1 }).unwrap());
        bytes.extend(hh.peer_bytes(&bad).unwrap());
        bytes.extend(hh.peer_bytes(&CAct::Ping { ts: 43 }).unwrap());
        out.push((format!("INVALID: {}", name), bytes));
    }
    out
}

// ---- driver -------------------------------------------------------------------------------------------------

pub fn run(run: &Run) {
    let thorough = run.thorough();
    let edges = AtomicU64::new(0);
    let nodes = AtomicU64::new(0);
    let streams = AtomicU64::new(0);
    let errored = AtomicU64::new(0);
    let bytes_total = AtomicU64::new(0);

    let handle = |family: &str, name: &str, stream: &[u8], outcome: PartOutcome| {
        streams.fetch_add(1, Ordering::Relaxed);
        bytes_total.fetch_add(stream.len() as u64, Ordering::Relaxed);
        match outcome {
            PartOutcome::Ok(st) => {
                edges.fetch_add(st.edges, Ordering::Relaxed);
                nodes.fetch_add(st.nodes, Ordering::Relaxed);
                if st.errored {
                    errored.fetch_add(1, Ordering::Relaxed);
                }
            }
            PartOutcome::Differ(sig, detail, parts, st) => {
                edges.fetch_add(st.edges, Ordering::Relaxed);
                nodes.fetch_add(st.nodes, Ordering::Relaxed);
                run.violation(&format!("C15/{}/{}", family, sig), &format!("{} ; stream: {}", detail, name), json!({"family": family, "stream_description": name, "partitions": parts}));
            }
        }
    };

    // ---- deserializer ----
    let mut des_streams: Vec<(String, Vec<u8>)> = Vec::new();
    des_streams.extend(lib_streams(thorough));
    des_streams.extend(foreign_streams(thorough));
    des_streams.extend(invalid_streams());
    run.set("deserializer_streams", json!(des_streams.len()));
    for i in [des_streams.len() / 3, des_streams.len() - 1] {
        run.sample(json!({"family": "deserializer", "stream_description": des_streams[i].0, "stream": hex(&des_streams[i].1), "explored": "every call length from every offset"}));
    }
    des_streams.par_iter().for_each(|(name, bytes)| {
        let init = DeCons { de: ChunkDeserializer::new() };
        let full = bytes.len() <= 400;
        let out = partition_graph(&init, bytes, full, None);
        handle("deserializer", name, bytes, out);
    });

    let large = large_chunk_streams(thorough);
    run.set("large_chunk_streams", json!(large.len()));
    large.par_iter().for_each(|(name, bytes)| {
        let marks = chunk_marks(bytes);
        run.count("large_chunk_call_boundaries", marks.len() as u64);
        let init = DeCons { de: ChunkDeserializer::new() };
        let out = partition_graph(&init, bytes, Cuts::Marks(marks.clone()), None);
        handle("deserializer", name, bytes, out);
        // the same bytes as the tail of a publishing server session and of a playing client session
        // (message stream 1 / 5 respectively is only correct for the server; the client ignores or refuses alike)
        let init = server_state(2);
        let mut dropped = None;
        let out = partition_graph(&init, bytes, Cuts::Marks(marks), Some(&mut dropped));
        handle("server-session", &format!("server state publishing: {}", name), bytes, out);
    });

    // ---- sessions ----
    let mut jobs: Vec<(String, String, Vec<u8>, u8, u8)> = Vec::new(); // family, name, bytes, side, kind
    for kind in 0..4u8 {
        let st = server_state(kind);
        for (name, bytes) in server_tails(&st.h) {
            jobs.push(("server-session".into(), format!("server state {}: {}", ["started", "connected", "publishing", "publishing+playing"][kind as usize], name), bytes, 0, kind));
        }
    }
    for kind in 0..3u8 {
        let st = client_state(kind);
        for (name, bytes) in client_tails(&st.h, kind == 1) {
            jobs.push(("client-session".into(), format!("client state {}: {}", ["connected", "playing", "publishing"][kind as usize], name), bytes, 1, kind));
        }
    }
    run.set("session_tail_streams", json!(jobs.len()));
    for i in [0, jobs.len() - 1] {
        run.sample(json!({"family": jobs[i].0, "stream_description": jobs[i].1, "stream": hex(&jobs[i].2), "explored": "every call length from every offset"}));
    }
    jobs.par_iter().for_each(|(family, name, bytes, side, kind)| {
        let full = bytes.len() <= (if thorough { 700 } else { 360 });
        if *side == 0 {
            let init = server_state(*kind);
            let mut dropped = None;
            let out = partition_graph(&init, bytes, full, Some(&mut dropped));
            handle(family, name, bytes, out);
            if let Some((detail, parts)) = dropped {
                run.violation(&format!("C15/{}/results-of-the-failing-call-dropped", family), &format!("{} ; stream: {}", detail, name), json!({"family": family, "stream_description": name, "partitions": parts}));
            }
        } else {
            let init = client_state(*kind);
            let mut dropped = None;
            let out = partition_graph(&init, bytes, full, Some(&mut dropped));
            handle(family, name, bytes, out);
            if let Some((detail, parts)) = dropped {
                run.violation(&format!("C15/{}/results-of-the-failing-call-dropped", family), &format!("{} ; stream: {}", detail, name), json!({"family": family, "stream_description": name, "partitions": parts}));
            }
        }
    });

    run.set("states", json!(nodes.load(Ordering::Relaxed)));
    run.set("transitions", json!(edges.load(Ordering::Relaxed)));
    run.set("traces_validated_against_impl", json!(edges.load(Ordering::Relaxed)));
    run.set("exhaustive", json!(false));
    run.set("bound", json!("for every stream of <= 400 bytes (sessions: 360 quick / 700 thorough) ALL call lengths from ALL offsets (decides all 2^(L-1) partitions of that stream); longer streams: all call lengths <= 24, multiples of 61 and 'the rest'; large-chunk streams (chunk sizes 4,097 and 70,000; thorough also 1,000/4,096/5,000/65,536): all subsets of six call boundaries around every chunk"));
    run.count("streams", streams.load(Ordering::Relaxed));
    run.count("streams_ending_in_an_error", errored.load(Ordering::Relaxed));
    run.count("stream_bytes", bytes_total.load(Ordering::Relaxed));
    run.set("explanation", json!("node = (offset, concrete fingerprint of the real deserializer/session, observations so far); from every node one edge per call length k feeds bytes [n, n+k) in one call; partition independence <=> every offset carries exactly one observation history (and one error flag); sessions: events and decoded responses, Acknowledgement messages excluded (their per-call emission is C17), no application calls during the tail"));
    run.sample(json!({"family": "deserializer", "stream": "library serializer, chunk size 2, [(8,1,16777215,5), (8,1,33554430,5)]", "checked": "all partitions yield the same two messages"}));
    run.sample(json!({"family": "server-session", "stream": "INVALID: ping then connect without an application name", "checked": "every partition errs at the same message with equal results before it"}));
    run.assume("a partition is a path in the graph; states are merged only when fingerprint and observation history are equal");
    if run.violation_count() == 0 || streams.load(Ordering::Relaxed) > 0 {
        run.require_hist(&["streams", "streams_ending_in_an_error"]);
    }
}

#[allow(dead_code)]
fn unused(_: V, _: r2::M) {}
