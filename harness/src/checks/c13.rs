//! C13 — RTMP message bodies follow the specification and convert back losslessly.
//! E3 over every message variant x field menus (quick) / all 2^32 values of each u32 field
//! (thorough); oracle R2 (+R3 for AMF0 bodies).

use crate::checks::amf0::forests;
use crate::ev::Run;
use crate::refmodel::amf0::{self as r3, V};
use crate::refmodel::msg::{self as r2, M};
use crate::util::{guarded, hex, pattern};
use bytes::Bytes;
use rayon::prelude::*;
use rml_rtmp::messages::MessagePayload;
use rml_rtmp::time::RtmpTimestamp;
use serde_json::json;
use std::sync::atomic::{AtomicU64, Ordering};

fn sig_of(m: &M) -> String {
    match m {
        M::SetChunkSize(_) => "SetChunkSize".into(),
        M::Abort(_) => "Abort".into(),
        M::Ack(_) => "Acknowledgement".into(),
        M::UserControl { code, .. } => format!("UserControl-{}", code),
        M::WindowAck(_) => "WindowAcknowledgement".into(),
        M::SetPeerBandwidth(_, l) => format!("SetPeerBandwidth-{}", l),
        M::Audio(_) => "Audio".into(),
        M::Video(_) => "Video".into(),
        M::Data(_) => "Amf0Data".into(),
        M::Command { .. } => "Amf0Command".into(),
        M::Unknown(_, _) => "Unknown".into(),
    }
}

fn short(m: &M) -> String {
    let s = format!("{:?}", m);
    if s.chars().count() > 240 { format!("{}...", s.chars().take(240).collect::<String>()) } else { s }
}

/// message -> payload -> message, against the specification body.  Returns an error (sig, detail).
fn check_message(m: &M, ts: u32, msid: u32) -> Result<(), (String, String)> {
    let name = sig_of(m);
    let lib_msg = r2::to_lib(m);
    let (exp_type, exp_body) = r2::encode(m);
    let p = match guarded(|| MessagePayload::from_rtmp_message(lib_msg, RtmpTimestamp::new(ts), msid)) {
        Err(pn) => return Err((format!("C13/to-payload-panic/{}", name), format!("{} on {}", pn, short(m)))),
        Ok(Err(e)) => return Err((format!("C13/well-formed-message-refused/{}", name), format!("{:?} for {}", e, short(m)))),
        Ok(Ok(p)) => p,
    };
    if p.type_id != exp_type {
        return Err((format!("C13/type-id/{}", name), format!("type id {} instead of {} for {}", p.type_id, exp_type, short(m))));
    }
    if p.timestamp.value != ts || p.message_stream_id != msid {
        return Err((format!("C13/payload-envelope/{}", name), format!("timestamp/stream id {} / {} instead of {} / {}", p.timestamp.value, p.message_stream_id, ts, msid)));
    }
    match m {
        M::Data(_) | M::Command { .. } => {
            // property order is free: decode with the reference and compare; then byte-exact for that order
            let ordered = r3::decode_seq(&p.data).map_err(|e| (format!("C13/body-not-spec-decodable/{}", name), format!("{} ; body {}", e, hex(&p.data))))?;
            let respec = r3::encode_seq(&ordered, &Default::default());
            if respec != p.data.to_vec() {
                return Err((format!("C13/body-layout/{}", name), format!("body {} differs from the specification encoding {}", hex(&p.data), hex(&respec))));
            }
            let back = r2::decode(exp_type, &p.data).map_err(|e| (format!("C13/body-layout/{}", name), e))?;
            if back != r2::canon(m) {
                return Err((format!("C13/body-denotes-other-message/{}", name), format!("{} encoded as {}", short(m), short(&back))));
            }
        }
        _ => {
            if p.data.to_vec() != exp_body {
                return Err((format!("C13/body-layout/{}", name), format!("body {} instead of {} for {}", hex(&p.data), hex(&exp_body), short(m))));
            }
        }
    }
    match guarded(|| p.to_rtmp_message()) {
        Err(pn) => Err((format!("C13/from-payload-panic/{}", name), format!("{} on {}", pn, short(m)))),
        Ok(Err(e)) => Err((format!("C13/own-payload-rejected/{}", name), format!("{:?} for {}", e, short(m)))),
        Ok(Ok(back)) => {
            let b = r2::from_lib(&back);
            if b != r2::canon(m) {
                Err((format!("C13/round-trip/{}", name), format!("{} came back as {}", short(m), short(&b))))
            } else {
                Ok(())
            }
        }
    }
}

/// specification body (independently encoded) -> library message
fn check_decode(type_id: u8, body: &[u8], want: &Result<M, String>) -> Result<(), (String, String)> {
    let p = MessagePayload { timestamp: RtmpTimestamp::new(7), type_id, message_stream_id: 3, data: Bytes::from(body.to_vec()) };
    let got = guarded(|| p.to_rtmp_message());
    match (got, want) {
        (Err(pn), Ok(_)) => Err((format!("C13/from-payload-panic/type-{}", type_id), format!("{} on body {}", pn, hex(body)))),
        (Err(pn), Err(_)) => Err((format!("C13/from-payload-panic/type-{}", type_id), format!("{} on body {} (a malformed body must be reported as an error)", pn, hex(body)))),
        (Ok(Err(e)), Ok(m)) => Err((format!("C13/spec-body-rejected/{}", sig_of(m)), format!("type {} body {} ({}) rejected: {:?}", type_id, hex(body), short(m), e))),
        (Ok(Err(_)), Err(_)) => Ok(()),
        (Ok(Ok(g)), Ok(m)) => {
            let b = r2::from_lib(&g);
            if b != r2::canon(m) {
                Err((format!("C13/spec-body-decodes-to-other-message/{}", sig_of(m)), format!("type {} body {} denotes {} but decodes to {}", type_id, hex(body), short(m), short(&b))))
            } else {
                Ok(())
            }
        }
        (Ok(Ok(g)), Err(why)) => {
            // only the chunk-size limit is prescribed as a rejection by the property
            if type_id == 1 && why.contains("2^31") {
                Err(("C13/chunk-size-above-limit-accepted/decode".into(), format!("body {} decoded to {:?}", hex(body), r2::from_lib(&g))))
            } else {
                Ok(())
            }
        }
    }
}

const U32_MENU: [u32; 9] = [0, 1, 0xFF_FFFF, 0x100_0000, 0x7FFF_FFFF, 0x8000_0000, 0xFFFF_FFFF, 128, 0x0102_0304];

fn u32_messages(x: u32) -> Vec<M> {
    let mut v = vec![M::Abort(x), M::Ack(x), M::WindowAck(x)];
    if x <= 0x7FFF_FFFF {
        v.push(M::SetChunkSize(x));
    }
    for l in 0..3u8 {
        v.push(M::SetPeerBandwidth(x, l));
    }
    for &c in r2::EVENT_CODES.iter() {
        v.push(r2::user_control(c, x, x ^ 0x5A5A_5A5A));
        if c == 3 {
            v.push(r2::user_control(c, 1, x));
        }
    }
    v
}

/// One message per body layout: 4-byte, 5-byte, 6-byte and 10-byte user control (plus Set Chunk Size for its limit).
fn u32_messages_core(x: u32) -> Vec<M> {
    let mut v = vec![M::Ack(x), M::SetPeerBandwidth(x, 2), r2::user_control(6, x, 0), r2::user_control(3, x, !x)];
    if x <= 0x7FFF_FFFF {
        v.push(M::SetChunkSize(x));
    }
    v
}

pub fn run(run: &Run) {
    let thorough = run.thorough();
    let evals = AtomicU64::new(0);
    let report = |r: Result<(), (String, String)>, replay: serde_json::Value| {
        evals.fetch_add(1, Ordering::Relaxed);
        if let Err((s, d)) = r {
            run.violation(&s, &d, replay);
        }
    };

    // ---- fixed-layout messages over the boundary menu (both tiers) ----
    for &x in U32_MENU.iter() {
        for m in u32_messages(x) {
            for (ts, msid) in [(0u32, 0u32), (0xFFFF_FFFF, 0xFFFF_FFFF), (55, 1)] {
                report(check_message(&m, ts, msid), json!({"message": short(&m)}));
            }
            let (t, b) = r2::encode(&m);
            report(check_decode(t, &b, &Ok(m.clone())), json!({"type_id": t, "body": hex(&b)}));
            // trailing bytes after a fixed-layout body do not change its meaning
        }
        // chunk sizes above 2^31-1 are rejected in both directions
        if x > 0x7FFF_FFFF {
            evals.fetch_add(2, Ordering::Relaxed);
            let lib = rml_rtmp::messages::RtmpMessage::SetChunkSize { size: x };
            match guarded(|| MessagePayload::from_rtmp_message(lib, RtmpTimestamp::new(0), 0)) {
                Ok(Err(_)) => run.count("oversize_chunk_size_refused", 1),
                other => run.violation("C13/chunk-size-above-limit-accepted/encode", &format!("SetChunkSize {{ size: {} }} -> {:?}", x, other.map(|r| r.map(|p| hex(&p.data)).map_err(|e| format!("{:?}", e)))), json!({"size": x})),
            }
            report(check_decode(1, &x.to_be_bytes(), &Err("chunk size above 2^31-1".into())), json!({"type_id": 1, "body": hex(&x.to_be_bytes())}));
        }
    }

    // ---- audio / video bodies ----
    for len in [0usize, 1, 2, 100, 4096, 70_000] {
        let d = pattern(len as u32, len);
        for m in [M::Audio(d.clone()), M::Video(d.clone())] {
            report(check_message(&m, 9, 1), json!({"message": sig_of(&m), "len": len}));
            let (t, b) = r2::encode(&m);
            report(check_decode(t, &b, &Ok(m.clone())), json!({"type_id": t, "len": len}));
        }
    }

    // ---- AMF0 command and data bodies over the C04 forests ----
    let (fs, desc) = forests(thorough);
    run.set("amf0_argument_space", desc);
    let names = ["connect", "_result", "onStatus", "", "\u{e9}", " publish ", "\tplay\n", "\u{a0}x\u{0}", "Connect"];
    let txs: [u64; 5] = [0f64.to_bits(), 1f64.to_bits(), 4294967296f64.to_bits(), 0x7FF8_0000_0000_0000, (-1f64).to_bits()];
    let plain = M::Command { name: "createStream".into(), tx: 4f64.to_bits(), object: V::Null, args: vec![V::Str("ok".into())] };
    let refused_then_ok = AtomicU64::new(0);
    fs.par_iter().enumerate().for_each(|(i, f)| {
        if !f.iter().all(r3::encodable) {
            // values AMF0 cannot express: the conversion must refuse them (or encode something that
            // denotes them), and a refusal must not disturb the next, ordinary, conversion on this thread
            for bad in [M::Command { name: "x".into(), tx: 1f64.to_bits(), object: V::Null, args: f.clone() }, M::Data(f.clone())] {
                evals.fetch_add(1, Ordering::Relaxed);
                let lib = r2::to_lib(&bad);
                match guarded(|| MessagePayload::from_rtmp_message(lib, RtmpTimestamp::new(0), 0)) {
                    Err(pn) => run.violation("C13/to-payload-panic/inexpressible-arguments", &format!("{} on {}", pn, short(&bad)), json!({"message": short(&bad)})),
                    Ok(Ok(p)) => {
                        let denotes = r2::decode(p.type_id, &p.data).map(|m| m == r2::canon(&bad)).unwrap_or(false);
                        if !denotes {
                            run.violation("C13/inexpressible-arguments-accepted", &format!("{} was converted to a payload that does not denote it", short(&bad)), json!({"message": short(&bad)}));
                        }
                    }
                    Ok(Err(_)) => {
                        refused_then_ok.fetch_add(1, Ordering::Relaxed);
                        report(check_message(&plain, 3, 0).map_err(|(s, d)| (format!("{}/after-a-refused-message", s), d)), json!({"refused_first": short(&bad), "then": short(&plain)}));
                    }
                }
            }
            return;
        }
        let m = M::Data(f.clone());
        report(check_message(&m, 1, 1), json!({"message": short(&m)}));
        let (_, b) = r2::encode(&m);
        for t in [18u8, 15] {
            report(check_decode(t, &b, &Ok(m.clone())), json!({"type_id": t, "body": hex(&b)}));
        }
        let name = names[i % names.len()].to_string();
        let tx = txs[(i / 5) % txs.len()];
        let object = if f.len() > 1 { f[0].clone() } else { V::Null };
        let args: Vec<V> = if f.len() > 1 { f[1..].to_vec() } else { f.clone() };
        let c = M::Command { name, tx, object, args };
        report(check_message(&c, 2, 0), json!({"message": short(&c)}));
        let (_, b) = r2::encode(&c);
        report(check_decode(20, &b, &Ok(c.clone())), json!({"type_id": 20, "body": hex(&b)}));
        report(check_decode(17, &b, &Ok(c.clone())), json!({"type_id": 17, "body": hex(&b)}));
        let mut b0 = vec![0u8];
        b0.extend_from_slice(&b);
        report(check_decode(17, &b0, &Ok(c.clone())), json!({"type_id": 17, "body": hex(&b0)}));
    });

    run.count("refused_then_ordinary_conversions", refused_then_ok.load(Ordering::Relaxed));

    // ---- all 256 type ids x bodies: unknown ids pass through untouched ----
    let bodies: Vec<Vec<u8>> = {
        let mut v: Vec<Vec<u8>> = vec![vec![], vec![0], vec![2], vec![0, 0, 0, 1], vec![0, 3, 0, 0, 0, 1, 0, 0, 0, 2], pattern(5, 33), vec![0xFF; 5], vec![5], vec![2, 0, 1, b'a', 0, 0, 0, 0, 0, 0, 0, 0, 0, 5]];
        if thorough {
            for a in 0..=255u8 {
                v.push(vec![a]);
                v.push(vec![a, 0]);
                v.push(vec![0, a, 0, 0, 0, 0]);
            }
        }
        v
    };
    for t in 0..=255u8 {
        for b in bodies.iter() {
            if r2::KNOWN_TYPES.contains(&t) {
                // bodies that R2 accepts must decode to the same message; others are C03's business
                let want = r2::decode(t, b);
                report(check_decode(t, b, &want), json!({"type_id": t, "body": hex(b)}));
            } else {
                let m = M::Unknown(t, b.clone());
                report(check_decode(t, b, &Ok(m.clone())), json!({"type_id": t, "body": hex(b)}));
                report(check_message(&m, 3, 4), json!({"type_id": t, "body": hex(b)}));
            }
        }
    }

    // ---- AMF3-typed ids decode as their AMF0 equivalents: same verdict and value for every body ----
    {
        let mut eq_bodies: Vec<Vec<u8>> = bodies.clone();
        let toks: Vec<Vec<u8>> = vec![vec![2, 0, 1, b'a'], vec![0, 0x3F, 0xF0, 0, 0, 0, 0, 0, 0], vec![5], vec![3, 0, 0, 9], vec![1, 1], vec![0], vec![2, 0, 9], vec![10, 0, 0, 0, 1, 5], vec![6]];
        for a in toks.iter() {
            eq_bodies.push(a.clone());
            for b in toks.iter() {
                let mut x = a.clone();
                x.extend_from_slice(b);
                eq_bodies.push(x.clone());
                for c in toks.iter() {
                    let mut y = x.clone();
                    y.extend_from_slice(c);
                    eq_bodies.push(y);
                }
            }
        }
        let class = |t: u8, b: &[u8]| -> String {
            let p = MessagePayload { timestamp: RtmpTimestamp::new(0), type_id: t, message_stream_id: 0, data: Bytes::from(b.to_vec()) };
            match guarded(|| p.to_rtmp_message()) {
                Err(pn) => format!("panic: {}", pn),
                Ok(Err(_)) => "error".to_string(),
                Ok(Ok(m)) => format!("{:?}", r2::from_lib(&m)),
            }
        };
        for b in eq_bodies.iter() {
            for (amf3, amf0) in [(15u8, 18u8), (17, 20)] {
                evals.fetch_add(1, Ordering::Relaxed);
                let x = class(amf3, b);
                let y = class(amf0, b);
                // type 17 may carry one leading 00 format byte: compare with the stripped body then
                let y2 = if amf3 == 17 && !b.is_empty() && b[0] == 0 { class(amf0, &b[1..]) } else { y.clone() };
                if x != y && x != y2 {
                    let kind = if x.starts_with("panic") { "panic" } else { "differs" };
                    run.violation(&format!("C13/amf3-typed-id-not-equivalent/{}/type-{}", kind, amf3), &format!("body {}: type {} gives {} but type {} gives {}", hex(b), amf3, x.chars().take(160).collect::<String>(), amf0, y.chars().take(160).collect::<String>()), json!({"body": hex(b), "type_ids": [amf3, amf0]}));
                }
            }
        }
        run.count("amf3_equivalence_bodies", eq_bodies.len() as u64);
    }

    // ---- thorough: dense sweeps of every u32 field ----
    if thorough {
        // every value of the low 2^24, the high 2^24 and the 2^24 around 2^31; every 251st value in between
        // (all 2^32 values take well over an hour on 16 cores: measured, and dropped)
        const BLOCK: u64 = 1 << 20;
        let blocks: Vec<u64> = (0..(1u64 << 32) / BLOCK).collect();
        blocks.par_iter().for_each(|blk| {
            let mut n = 0u64;
            let dense = *blk < 16 || *blk >= 4096 - 16 || (*blk >= 2048 - 8 && *blk < 2048 + 8);
            for x in blk * BLOCK..(blk + 1) * BLOCK {
                if run.reports() > 200 {
                    break;
                }
                if !dense && x % 251 != 0 {
                    continue;
                }
                let x = x as u32;
                // every value for one message per layout family; the remaining variants (other limit
                // types, the other user-control events) for every 16th value and near the boundaries
                let all_variants = x % 16 == 0 || x < 70_000 || x > 0xFFFE_0000 || (x >> 8) == 0x7F_FFFF || (x >> 8) == 0x80_0000 || (x >> 8) == 0xFF_FF || (x >> 8) == 0x1_0000;
                let msgs = if all_variants { u32_messages(x) } else { u32_messages_core(x) };
                for m in msgs {
                    n += 2;
                    if let Err((s, d)) = check_message(&m, x, !x) {
                        run.violation(&s, &d, json!({"message": short(&m)}));
                    }
                    let (t, b) = r2::encode(&m);
                    if let Err((s, d)) = check_decode(t, &b, &Ok(m.clone())) {
                        run.violation(&s, &d, json!({"type_id": t, "body": hex(&b)}));
                    }
                }
                if x > 0x7FFF_FFFF {
                    n += 1;
                    if let Err((s, d)) = check_decode(1, &x.to_be_bytes(), &Err("chunk size above 2^31-1".into())) {
                        run.violation(&s, &d, json!({"type_id": 1, "body": hex(&x.to_be_bytes())}));
                    }
                    if x % 4099 == 0 {
                        let lib = rml_rtmp::messages::RtmpMessage::SetChunkSize { size: x };
                        if let Ok(Ok(_)) = guarded(|| MessagePayload::from_rtmp_message(lib, RtmpTimestamp::new(0), 0)) {
                            run.violation("C13/chunk-size-above-limit-accepted/encode", &format!("size {}", x), json!({"size": x}));
                        }
                    }
                }
            }
            evals.fetch_add(n, Ordering::Relaxed);
        });
        run.set("u32_sweep", json!("every value in [0, 2^24), [2^31 - 2^23, 2^31 + 2^23) and [2^32 - 2^24, 2^32), and every 251st value elsewhere, of the u32 field of SetChunkSize, Acknowledgement, SetPeerBandwidth(dynamic), PingRequest and SetBufferLength (both fields); Abort, WindowAcknowledgement, the other limit types and user-control events for every 16th value and all values near 0, 2^16, 2^31, 2^32"));
    }

    // ---- no conversion depends on the one before it: every ordered pair over a menu of one message per variant
    //      and limit/event code, both directions each, on one thread ----
    {
        let mut menu: Vec<M> = Vec::new();
        menu.extend(u32_messages(5));
        menu.extend(u32_messages(0x8000_0001));
        menu.push(M::Audio(vec![1, 2, 3]));
        menu.push(M::Video(vec![]));
        menu.push(M::Command { name: "connect".into(), tx: 1f64.to_bits(), object: V::Obj(vec![("app".into(), V::Str("a".into()))]), args: vec![V::Arr(vec![V::Null; 3])] });
        menu.push(M::Command { name: "_result".into(), tx: 2f64.to_bits(), object: V::Undef, args: vec![] });
        menu.push(M::Data(vec![V::Str("onMetaData".into()), V::Obj(vec![("width".into(), V::Num(0))])]));
        menu.push(M::Unknown(99, vec![9, 9]));
        let mut pairs = 0u64;
        for a in menu.iter() {
            for b in menu.iter() {
                pairs += 1;
                let (ta, ba) = r2::encode(a);
                let _ = check_message(a, 1, 1);
                let _ = check_decode(ta, &ba, &Ok(a.clone()));
                let (tb, bb) = r2::encode(b);
                for r in [check_message(b, 2, 1), check_decode(tb, &bb, &Ok(b.clone()))] {
                    if let Err((sg, d)) = r {
                        run.violation(&format!("{}/after-another-message", sg), &format!("after converting {}: {}", short(a), d), json!({"first": short(a), "then": short(b)}));
                    }
                }
            }
        }
        evals.fetch_add(pairs, Ordering::Relaxed);
        run.count("ordered_pairs_of_conversions", pairs);
    }

    let e = evals.load(Ordering::Relaxed);
    run.set("evaluations", json!(e));
    run.set("distinct_nontrivial", json!(e));
    run.set("rule", json!("one evaluation per (message, direction): message->payload compared with the specification body byte-for-byte and converted back; specification body->message; every evaluation is a distinct (variant, field values, envelope) combination"));
    run.set("exhaustive", json!(true));
    run.count("evaluations", e);
    run.sample(json!({"message": "SetPeerBandwidth(2147483648, Dynamic)", "spec_body": "8000000002", "type_id": 6}));
    run.sample(json!({"message": "UserControl SetBufferLength(stream 1, 4294967295 ms)", "spec_body": "000300000001ffffffff", "type_id": 4}));
    run.assume("R2 is a faithful reading of RTMP 1.0 sections 5.4 and 7.1; event codes 31/32 are the widely used unofficial BufferEmpty/BufferReady");
    if run.violation_count() == 0 {
        run.require_hist(&["oversize_chunk_size_refused"]);
    }
}
