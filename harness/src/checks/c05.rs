//! C05 — the handshake completes under any fragmentation and hands back trailing bytes intact.
//! Per side: the all-partitions graph of the peer's byte stream (every edge (n, k) executed on the
//! real Handshake object and required to land on the canonical node for offset n+k).  Jointly: the
//! interleaving grid over (bytes delivered to the server, bytes delivered to the client) built
//! from the verified per-side emission functions, plus real-object replays of schedules.

use super::c11::{peer_type, Role};
use crate::ev::Run;
use crate::util::{guarded, hash128, hex};
use rayon::prelude::*;
use rml_rtmp::handshake::{Handshake, HandshakeProcessResult};
use rml_rtmp::verif_hooks::{set_fill, FillSpec};
use serde_json::{json, Value};
use std::sync::atomic::{AtomicU64, Ordering};

const HS: usize = 3073;

fn with_fill<T>(seed: u64, f: impl FnOnce() -> T) -> T {
    set_fill(Some(FillSpec { seed, forced_p1: vec![] }));
    let r = f();
    set_fill(None);
    r
}

#[derive(Clone)]
struct Side {
    role: Role,
    seed: u64,
    /// call generate_outbound_p0_and_p1 before any input
    speaks_first: bool,
}

#[derive(Clone, Debug, PartialEq)]
enum Res {
    InProgress(Vec<u8>),
    Completed(Vec<u8>, Vec<u8>),
    Err(String),
    Panic(String),
}

fn start(side: &Side) -> (Handshake, Vec<u8>) {
    with_fill(side.seed, || {
        let mut h = Handshake::new(peer_type(side.role));
        let mut out = Vec::new();
        if side.speaks_first {
            out = h.generate_outbound_p0_and_p1().expect("generate p0 p1");
        }
        (h, out)
    })
}

fn feed(side: &Side, h: &mut Handshake, bytes: &[u8]) -> Res {
    with_fill(side.seed, || match guarded(|| h.process_bytes(bytes)) {
        Err(p) => Res::Panic(p),
        Ok(Err(e)) => Res::Err(format!("{:?}", e)),
        Ok(Ok(HandshakeProcessResult::InProgress { response_bytes })) => Res::InProgress(response_bytes),
        Ok(Ok(HandshakeProcessResult::Completed { response_bytes, remaining_bytes })) => Res::Completed(response_bytes, remaining_bytes),
    })
}

fn fp(h: &Handshake) -> u128 {
    let mut v = Vec::new();
    h.verif_fingerprint(&mut v);
    hash128(&v)
}

/// Runs a whole-packet exchange between two library handshakes and returns (client stream, server stream).
fn library_streams(cseed: u64, sseed: u64) -> (Vec<u8>, Vec<u8>) {
    let cs = Side { role: Role::Client, seed: cseed, speaks_first: true };
    let ss = Side { role: Role::Server, seed: sseed, speaks_first: false };
    let (mut c, c01) = start(&cs);
    let (mut s, _) = start(&ss);
    let mut cstream = c01.clone();
    let mut sstream = Vec::new();
    match feed(&ss, &mut s, &c01) {
        Res::InProgress(r) => sstream.extend(r),
        other => panic!("server on c0c1: {:?}", other),
    }
    match feed(&cs, &mut c, &sstream.clone()) {
        Res::Completed(r, rem) => {
            assert!(rem.is_empty());
            cstream.extend(r)
        }
        other => panic!("client on s0s1s2: {:?}", other),
    }
    match feed(&ss, &mut s, &cstream[1537..]) {
        Res::Completed(r, rem) => {
            assert!(r.is_empty() && rem.is_empty());
        }
        other => panic!("server on c2: {:?}", other),
    }
    (cstream, sstream)
}

/// Peer stream of a digest-less (original RTMP specification) peer for the given library side.
fn original_peer_stream(side: &Side, shape: u8) -> Vec<u8> {
    // what the library side sends first (needed for the echo)
    let mut probe_side = side.clone();
    probe_side.speaks_first = true;
    let (_h, own) = start(&probe_side);
    let own_p1 = own[1..].to_vec();
    let mut p1 = vec![0u8; 1536];
    let mut x: u64 = 0x243F6A8885A308D3 ^ side.seed;
    for (i, b) in p1.iter_mut().enumerate() {
        x ^= x << 13;
        x ^= x >> 7;
        x ^= x << 17;
        *b = match shape {
            0 => 0,
            1 => if i < 8 { 0 } else { x as u8 },
            2 => x as u8,
            3 => if i >= 4 && i < 8 { [9u8, 0, 124, 2][i - 4] } else { 0 },
            4 => if i >= 1504 { x as u8 } else { 0 },
            5 => 0xFF,
            6 => if i < 4 { 0xFF } else if i < 8 { 0 } else { (i % 251) as u8 },
            _ => x as u8,
        };
    }
    if shape == 1 {
        p1[0..4].copy_from_slice(&[0, 0, 0x12, 0x34]);
    }
    let mut s = vec![3u8];
    s.extend_from_slice(&p1);
    s.extend_from_slice(&own_p1); // packet 2 = echo of the library's packet 1
    s
}

struct StreamCase {
    name: String,
    side: Side,
    stream: Vec<u8>,
    /// expected total output (3073 bytes) is whatever the canonical run produces; for the
    /// digest-less case packet 2 must echo the peer's packet 1
    expect_echo_of_peer_p1: bool,
}

struct Canon {
    fps: Vec<u128>,
    resp_len: Vec<usize>,
    resp: Vec<u8>,
}

/// Canonical node per offset: the state after delivering the prefix in ONE call.
fn canonical(case: &StreamCase, run: &Run, calls: &AtomicU64) -> Option<Canon> {
    let l = case.stream.len();
    let (h0, out0) = start(&case.side);
    let results: Vec<(u128, Vec<u8>, bool, Option<(String, String)>)> = (0..=l)
        .into_par_iter()
        .map(|n| {
            let mut h = h0.clone();
            let mut resp = out0.clone();
            let mut viol = None;
            let mut completed = false;
            if n > 0 {
                calls.fetch_add(1, Ordering::Relaxed);
                match feed(&case.side, &mut h, &case.stream[..n]) {
                    Res::InProgress(r) => {
                        resp.extend(r);
                        if n >= HS {
                            viol = Some(("C05/not-completed".to_string(), format!("after all {} handshake bytes (+{} trailing) in one call the handshake is still in progress", HS, n - HS)));
                        }
                    }
                    Res::Completed(r, rem) => {
                        resp.extend(r);
                        completed = true;
                        if n < HS {
                            viol = Some(("C05/early-completion".to_string(), format!("completion reported after only {} of {} peer bytes", n, HS)));
                        } else if rem != case.stream[HS..n] {
                            viol = Some(("C05/trailing-bytes".to_string(), format!("delivered {} bytes in one call: remaining_bytes = {} but the bytes after the handshake are {}", n, hex(&rem), hex(&case.stream[HS..n]))));
                        }
                    }
                    Res::Err(e) => viol = Some(("C05/error".to_string(), format!("prefix of {} bytes in one call: {}", n, e))),
                    Res::Panic(p) => viol = Some(("C05/panic".to_string(), format!("prefix of {} bytes in one call: {}", n, p))),
                }
            }
            (fp(&h), resp, completed, viol)
        })
        .collect();
    for (n, r) in results.iter().enumerate() {
        if let Some((sig, d)) = &r.3 {
            run.violation(sig, &format!("{} ; {}", d, case.name), json!({"case": case.name, "calls": [n]}));
            return None;
        }
    }
    // shape of the emitted bytes
    let total = &results[l].1;
    if total.len() != HS || total[0] != 3 {
        run.violation("C05/output-shape", &format!("{}: emitted {} bytes in total, first byte {:?}; expected version byte 3 + two 1536-byte packets", case.name, total.len(), total.get(0)), json!({"case": case.name}));
        return None;
    }
    if case.expect_echo_of_peer_p1 && total[1537..] != case.stream[1..1537] {
        run.violation("C05/digestless-peer-not-echoed", &format!("{}: packet 2 is not an echo of the digest-less peer's packet 1", case.name), json!({"case": case.name}));
        return None;
    }
    // responses are cumulative prefixes of the total
    for (n, r) in results.iter().enumerate() {
        if r.1.len() > total.len() || r.1[..] != total[..r.1.len()] {
            run.violation("C05/output-not-a-prefix", &format!("{}: output after {} bytes is not a prefix of the final output", case.name, n), json!({"case": case.name, "calls": [n]}));
            return None;
        }
    }
    Some(Canon { fps: results.iter().map(|r| r.0).collect(), resp_len: results.iter().map(|r| r.1.len()).collect(), resp: total.clone() })
}

/// Every edge (n, k): from the canonical node at n feed k bytes; must land on the canonical node at n+k.
fn all_edges(case: &StreamCase, canon: &Canon, offsets: &[usize], run: &Run, calls: &AtomicU64) -> u64 {
    let l = case.stream.len();
    let (h0, _) = start(&case.side);
    let edges = AtomicU64::new(0);
    offsets.par_iter().for_each(|&n| {
        // rebuild the canonical node at n
        let mut base = h0.clone();
        if n > 0 {
            let _ = feed(&case.side, &mut base, &case.stream[..n]);
        }
        for k in 0..=(l - n) {
            if k == 0 && n == 0 {
                continue;
            }
            let mut h = base.clone();
            calls.fetch_add(1, Ordering::Relaxed);
            edges.fetch_add(1, Ordering::Relaxed);
            let r = feed(&case.side, &mut h, &case.stream[n..n + k]);
            let m = n + k;
            let cuts = if n > 0 { vec![n, m] } else { vec![m] };
            let replay = json!({"case": case.name, "calls_end_at": cuts, "peer_stream": hex(&case.stream)});
            if n >= HS {
                // already complete: further calls must be refused, never a second hand-over
                // refused, or the new bytes handed through untouched exactly once (never anything else)
                let passed_through = match &r {
                    Res::Completed(resp, rem) => resp.is_empty() && rem[..] == case.stream[n..n + k],
                    Res::InProgress(resp) => resp.is_empty() && k == 0,
                    _ => false,
                };
                match r {
                    Res::Err(_) => {}
                    _ if passed_through => {}
                    other => {
                        run.violation("C05/call-after-completion-accepted", &format!("{}: a call with {} bytes after completion returned {}", case.name, k, short(&other)), replay);
                        return;
                    }
                }
                continue;
            }
            let (resp, completed, rem) = match r {
                Res::InProgress(x) => (x, false, Vec::new()),
                Res::Completed(x, rem) => (x, true, rem),
                Res::Err(e) => {
                    run.violation("C05/error", &format!("{}: calls ending at {:?}: {}", case.name, cuts, e), replay);
                    return;
                }
                Res::Panic(p) => {
                    run.violation("C05/panic", &format!("{}: calls ending at {:?}: {}", case.name, cuts, p), replay);
                    return;
                }
            };
            if completed != (m >= HS) {
                let sig = if completed { "C05/early-completion" } else { "C05/not-completed" };
                run.violation(sig, &format!("{}: calls ending at {:?}: completed={} after {} of {} peer bytes", case.name, cuts, completed, m, HS), replay);
                return;
            }
            if completed && rem != case.stream[HS..m] {
                run.violation("C05/trailing-bytes", &format!("{}: calls ending at {:?}: remaining_bytes = {} ({} bytes) but the peer sent {} ({} bytes) after its handshake", case.name, cuts, hex(&rem[..rem.len().min(24)]), rem.len(), hex(&case.stream[HS..m][..(m - HS).min(24)]), m - HS), replay);
                return;
            }
            let want = &canon.resp[canon.resp_len[n]..canon.resp_len[m]];
            if resp != want {
                run.violation("C05/response-depends-on-fragmentation", &format!("{}: calls ending at {:?}: the second call emitted {} bytes, the one-call delivery emits {} bytes for that span", case.name, cuts, resp.len(), want.len()), replay);
                return;
            }
            if fp(&h) != canon.fps[m] {
                run.violation("C05/state-depends-on-fragmentation", &format!("{}: calls ending at {:?} leave the handshake in a different state than one call of {} bytes", case.name, cuts, m), replay);
                return;
            }
        }
    });
    edges.load(Ordering::Relaxed)
}

fn short(r: &Res) -> String {
    match r {
        Res::InProgress(x) => format!("InProgress({} bytes)", x.len()),
        Res::Completed(x, y) => format!("Completed({} bytes, {} remaining)", x.len(), y.len()),
        Res::Err(e) => format!("Err({})", e),
        Res::Panic(p) => format!("panic({})", p),
    }
}

/// Joint interleaving grid from the verified emission functions.  emitted_x[n] = bytes side x has
/// emitted after consuming n bytes.  Returns (nodes, edges) or a deadlock description.
fn grid(em_c: &[usize], em_s: &[usize], lc: usize, ls: usize) -> Result<(u64, u64), String> {
    // node (i, j): i bytes delivered to the server (from the client's output), j to the client
    let w = ls + 1;
    let mut seen = vec![false; (lc + 1) * w];
    let mut stack = vec![(0usize, 0usize)];
    seen[0] = true;
    let (mut nodes, mut edges) = (0u64, 0u64);
    while let Some((i, j)) = stack.pop() {
        nodes += 1;
        let avail_to_server = em_c[j.min(em_c.len() - 1)];
        let avail_to_client = em_s[i.min(em_s.len() - 1)];
        let mut enabled = 0;
        if i < avail_to_server && i < lc {
            enabled += 1;
            edges += 1;
            if !seen[(i + 1) * w + j] {
                seen[(i + 1) * w + j] = true;
                stack.push((i + 1, j));
            }
        }
        if j < avail_to_client && j < ls {
            enabled += 1;
            edges += 1;
            if !seen[i * w + j + 1] {
                seen[i * w + j + 1] = true;
                stack.push((i, j + 1));
            }
        }
        if enabled == 0 && !(i >= HS && j >= HS) {
            return Err(format!("deadlock with {} bytes delivered to the server and {} to the client", i, j));
        }
    }
    Ok((nodes, edges))
}

pub fn run(run: &Run) {
    let thorough = run.thorough();
    let calls = AtomicU64::new(0);
    let seeds: Vec<u64> = if thorough { (0..2).map(|i| run.seed + 11 * i).collect() } else { vec![run.seed] };
    let trailing: Vec<usize> = if thorough { vec![0, 37, 1700] } else { vec![37, 1700] };
    let mut cases: Vec<StreamCase> = Vec::new();
    for &seed in seeds.iter() {
        let (cstream, sstream) = library_streams(seed * 2 + 1, seed * 2 + 2);
        for &t in trailing.iter() {
            let tail: Vec<u8> = (0..t).map(|i| (i as u8).wrapping_mul(7).wrapping_add(3)).collect();
            for speaks_first in [false, true] {
                let mut s = cstream.clone();
                s.extend(&tail);
                cases.push(StreamCase { name: format!("library server (speaks first: {}) fed a library client's stream + {} trailing bytes, filler seed {}", speaks_first, t, seed), side: Side { role: Role::Server, seed: seed * 2 + 2, speaks_first }, stream: s, expect_echo_of_peer_p1: false });
                let mut s = sstream.clone();
                s.extend(&tail);
                cases.push(StreamCase { name: format!("library client (speaks first: {}) fed a library server's stream + {} trailing bytes, filler seed {}", speaks_first, t, seed), side: Side { role: Role::Client, seed: seed * 2 + 1, speaks_first }, stream: s, expect_echo_of_peer_p1: false });
            }
            if seed == seeds[0] {
                for shape in 0..(if thorough { 3 } else { 2 }) {
                    for role in [Role::Server, Role::Client] {
                        let side = Side { role, seed: seed * 2 + 5, speaks_first: role == Role::Client };
                        let mut s = original_peer_stream(&side, shape);
                        s.extend(&tail);
                        cases.push(StreamCase { name: format!("library {:?} fed a digest-less (original handshake, shape {}) peer's stream + {} trailing bytes", role, shape, t), side, stream: s, expect_echo_of_peer_p1: true });
                    }
                }
            }
        }
    }
    // digest-less peers of further shapes (version field set, all ones, mostly zero ...): every one-call prefix
    // delivery (the canonical pass only), both roles
    let mut shape_cases: Vec<StreamCase> = Vec::new();
    for shape in 0..7u8 {
        for role in [Role::Server, Role::Client] {
            for speaks_first in [false, true] {
                if !thorough && shape != 2 && speaks_first != (role == Role::Client) {
                    continue;
                }
                let side = Side { role, seed: 77 + shape as u64, speaks_first };
                let mut s = original_peer_stream(&side, shape);
                s.extend_from_slice(&[0xA1, 0xA2, 0xA3]);
                shape_cases.push(StreamCase { name: format!("library {:?} (speaks first: {}) fed a digest-less peer's stream of shape {} + 3 trailing bytes", role, speaks_first, shape), side: side.clone(), stream: s.clone(), expect_echo_of_peer_p1: true });
                if shape <= 2 {
                    // a peer that follows the original specification to the letter: packet 2 = our time, ITS OWN read
                    // time (time2), our random bytes - i.e. bytes 4..8 of its packet 2 differ from our packet 1
                    for (vi, time2) in [[1u8, 2, 3, 4], [0, 0, 0, 0]].iter().enumerate() {
                        let mut t = s.clone();
                        t[1537 + 4..1537 + 8].copy_from_slice(time2);
                        shape_cases.push(StreamCase { name: format!("library {:?} (speaks first: {}) fed a digest-less peer's stream of shape {} whose packet 2 carries its own time2 (variant {}) + 3 trailing bytes", role, speaks_first, shape, vi), side: side.clone(), stream: t, expect_echo_of_peer_p1: true });
                    }
                }
            }
        }
    }
    let mut shape_ok = 0u64;
    for case in shape_cases.iter() {
        if canonical(case, run, &calls).is_some() {
            shape_ok += 1;
        }
    }
    run.count("digestless_shape_streams_every_one_call_prefix", shape_ok);
    // (i) a peer packet 1 with every digest-pointer byte sum 0..=1020 at either pointer position (random content,
    //     so digest-less): both roles must answer with an echo, never panic or fail
    {
        let jobs: Vec<(Role, usize, u32)> = [Role::Server, Role::Client].iter().flat_map(|r| [8usize, 772].into_iter().flat_map(move |p| (0..=1020u32).map(move |s| (*r, p, s)))).collect();
        let ok = AtomicU64::new(0);
        jobs.par_iter().for_each(|(role, ptr, sum)| {
            let side = Side { role: *role, seed: 900 + *sum as u64, speaks_first: *sum % 2 == 0 };
            let mut p1 = vec![0u8; 1536];
            let mut x: u64 = 0x9E3779B97F4A7C15 ^ ((*sum as u64) << 8) ^ *ptr as u64;
            for b in p1.iter_mut() {
                x ^= x << 13;
                x ^= x >> 7;
                x ^= x << 17;
                *b = x as u8;
            }
            let mut rest = *sum;
            for k in 0..4 {
                let v = rest.min(255);
                p1[*ptr + k] = v as u8;
                rest -= v;
            }
            let (mut h, out0) = start(&side);
            let mut stream = vec![3u8];
            stream.extend_from_slice(&p1);
            calls.fetch_add(1, Ordering::Relaxed);
            let replay = json!({"role": format!("{:?}", role), "pointer_bytes_at": ptr, "pointer_byte_sum": sum, "speaks_first": side.speaks_first});
            match feed(&side, &mut h, &stream) {
                Res::InProgress(r) => {
                    let mut all = out0.clone();
                    all.extend(r);
                    if all.len() != HS || all[1537..] != p1[..] {
                        run.violation("C05/digestless-peer-not-echoed", &format!("library {:?}: peer packet 1 with pointer bytes at {} summing to {}: {} bytes emitted, packet 2 {} the peer's packet 1", role, ptr, sum, all.len(), if all.len() == HS { "differs from" } else { "cannot be compared with" }), replay);
                    } else {
                        ok.fetch_add(1, Ordering::Relaxed);
                    }
                }
                other => run.violation(if matches!(other, Res::Panic(_)) { "C05/panic" } else { "C05/error" }, &format!("library {:?}: peer packet 1 with pointer bytes at {} summing to {}: {}", role, ptr, sum, short(&other)), replay),
            }
        });
        run.count("peer_packet1_pointer_sums", ok.load(Ordering::Relaxed));
    }
    // (i') a side started with an empty process_bytes call instead of generate_outbound_p0_and_p1 emits its packets 0
    //      and 1 in that call (documented usage), and the exchange then completes
    {
        let mut n = 0u64;
        for both in [false, true] {
            let cs = Side { role: Role::Client, seed: 61, speaks_first: false };
            let ss = Side { role: Role::Server, seed: 62, speaks_first: false };
            let (mut c, _) = start(&cs);
            let (mut s, _) = start(&ss);
            calls.fetch_add(1, Ordering::Relaxed);
            let c01 = match feed(&cs, &mut c, &[]) {
                Res::InProgress(r) if r.len() == 1537 && r[0] == 3 => r,
                other => {
                    run.violation("C05/empty-first-call-emits-nothing", &format!("a fresh client handshake fed an empty first call returned {} instead of its 1537 bytes (version byte + packet 1)", short(&other)), json!({"role": "Client", "first_call": "empty"}));
                    continue;
                }
            };
            let mut to_client: Vec<u8> = Vec::new();
            if both {
                calls.fetch_add(1, Ordering::Relaxed);
                match feed(&ss, &mut s, &[]) {
                    Res::InProgress(r) if r.len() == 1537 && r[0] == 3 => to_client.extend(r),
                    other => {
                        run.violation("C05/empty-first-call-emits-nothing", &format!("a fresh server handshake fed an empty first call returned {}", short(&other)), json!({"role": "Server", "first_call": "empty"}));
                        continue;
                    }
                }
            }
            let r1 = feed(&ss, &mut s, &c01);
            match r1 {
                Res::InProgress(r) => to_client.extend(r),
                other => {
                    run.violation("C05/error", &format!("server on the client's first 1537 bytes after empty-call starts: {}", short(&other)), json!({"both_started_with_empty_calls": both}));
                    continue;
                }
            }
            let c2 = match feed(&cs, &mut c, &to_client) {
                Res::Completed(r, rem) if rem.is_empty() => r,
                other => {
                    run.violation("C05/not-completed", &format!("client after empty-call starts: {} (was fed {} bytes)", short(&other), to_client.len()), json!({"both_started_with_empty_calls": both}));
                    continue;
                }
            };
            match feed(&ss, &mut s, &c2) {
                Res::Completed(_, rem) if rem.is_empty() => n += 1,
                other => run.violation("C05/not-completed", &format!("server after empty-call starts: {}", short(&other)), json!({"both_started_with_empty_calls": both})),
            }
            calls.fetch_add(3, Ordering::Relaxed);
        }
        run.count("exchanges_started_with_empty_calls", n);
    }
    // (ii) large amounts of application data behind the peer's last handshake packet, in the same call and split
    {
        let (cstream, sstream) = library_streams(41, 42);
        let mut n = 0u64;
        for t in [4_608usize, 4_609, 5_000, 70_000, 1_000_000] {
            let tail: Vec<u8> = (0..t).map(|i| (i as u32).wrapping_mul(2654435761).to_be_bytes()[0]).collect();
            for (role, base) in [(Role::Server, &cstream), (Role::Client, &sstream)] {
                let mut stream = base.clone();
                stream.extend_from_slice(&tail);
                let side = Side { role, seed: if role == Role::Server { 42 } else { 41 }, speaks_first: role == Role::Client };
                let cut_sets: Vec<Vec<usize>> = vec![vec![], vec![1537], vec![3072], vec![3073], vec![1536, 3072], vec![700, 3073 + t / 2], vec![3073 - 836, 3073 + 1]];
                for cuts in cut_sets {
                    let (mut h, _) = start(&side);
                    let mut prev = 0usize;
                    let mut ends = cuts.clone();
                    ends.push(stream.len());
                    let mut completed = false;
                    let mut rem_all: Vec<u8> = Vec::new();
                    let mut bad: Option<String> = None;
                    for e in ends.iter() {
                        calls.fetch_add(1, Ordering::Relaxed);
                        if completed {
                            // application data after completion is the caller's business
                            rem_all.extend_from_slice(&stream[prev..*e]);
                            prev = *e;
                            continue;
                        }
                        match feed(&side, &mut h, &stream[prev..*e]) {
                            Res::InProgress(_) => {}
                            Res::Completed(_, rem) => {
                                completed = true;
                                rem_all.extend(rem);
                            }
                            other => {
                                bad = Some(short(&other));
                                break;
                            }
                        }
                        prev = *e;
                    }
                    n += 1;
                    let replay = json!({"role": format!("{:?}", role), "trailing_bytes": t, "calls_end_at": ends});
                    if let Some(b) = bad {
                        run.violation(if b.starts_with("panic") { "C05/panic" } else { "C05/error" }, &format!("library {:?} with {} bytes of application data behind the peer's handshake, calls ending at {:?}: {}", role, t, ends, b), replay);
                    } else if !completed {
                        run.violation("C05/not-completed", &format!("library {:?} with {} trailing bytes, calls ending at {:?}: not completed", role, t, ends), replay);
                    } else if rem_all != tail {
                        run.violation("C05/trailing-bytes", &format!("library {:?} with {} trailing bytes, calls ending at {:?}: {} bytes handed back, not equal to what was sent", role, t, ends, rem_all.len()), replay);
                    }
                }
            }
        }
        run.count("large_trailing_data_deliveries", n);
    }
    let mut total_edges = 0u64;
    let mut total_nodes = 0u64;
    let mut reports: Vec<Value> = Vec::new();
    let mut emissions: Vec<(String, Vec<usize>, usize)> = Vec::new();
    for case in cases.iter() {
        let canon = match canonical(case, run, &calls) {
            Some(c) => c,
            None => continue,
        };
        let l = case.stream.len();
        let offsets: Vec<usize> = if thorough {
            (0..=l).collect()
        } else {
            let marks = [0usize, 1, 1537, HS, l];
            (0..=l).filter(|n| marks.iter().any(|m| (*n as i64 - *m as i64).abs() <= 3) || n % 13 == 0).collect()
        };
        let e = all_edges(case, &canon, &offsets, run, &calls);
        total_edges += e;
        total_nodes += (l + 1) as u64;
        reports.push(json!({"case": case.name, "stream_bytes": l, "start_offsets": offsets.len(), "edges": e, "all_partitions": offsets.len() == l + 1}));
        if reports.len() <= 2 {
            run.sample(json!({"case": case.name, "edge_examples": [{"from_offset": offsets[offsets.len() / 2], "call_lengths": "0..=rest"}, {"from_offset": 1536, "call_lengths": "0..=rest"}],
                "emitted_after_consuming": {"0": canon.resp_len[0], "1": canon.resp_len[1], "1537": canon.resp_len[1537], "3073": canon.resp_len[HS]}}));
        }
        emissions.push((case.name.clone(), canon.resp_len.clone(), l));
    }
    // ---- joint interleavings: client (speaks first / waits) x server (speaks first / waits) ----
    let mut grid_nodes = 0u64;
    let mut grid_edges = 0u64;
    {
        let find = |pat: &str| emissions.iter().find(|e| e.0.starts_with(pat));
        for cf in [false, true] {
            for sf in [false, true] {
                let c = find(&format!("library client (speaks first: {})", cf));
                let s = find(&format!("library server (speaks first: {})", sf));
                if let (Some(c), Some(s)) = (c, s) {
                    match grid(&c.1, &s.1, s.2, c.2) {
                        Ok((n, e)) => {
                            grid_nodes += n;
                            grid_edges += e;
                        }
                        Err(d) => {
                            // a client and a server that both wait for the other to speak is not a
                            // library defect: one of them has to start (the client, by protocol)
                            if !cf && !sf {
                                run.count("both_sides_waiting_is_a_deadlock_by_construction", 1);
                            } else {
                                run.violation("C05/joint-deadlock", &format!("client speaks first: {}, server speaks first: {}: {}", cf, sf, d), json!({"client_speaks_first": cf, "server_speaks_first": sf}));
                            }
                        }
                    }
                }
            }
        }
    }
    // ---- real-object replays of joint schedules (unit steps, deviation-bounded) ----
    let mut joint_runs = 0u64;
    for &seed in seeds.iter().take(2) {
        for policy in 0..(if thorough { 8 } else { 4 }) {
            joint_runs += 1;
            if let Err((sig, d)) = joint_replay(seed, policy, &calls) {
                run.violation(&sig, &d, json!({"joint_schedule_policy": policy, "filler_seed": seed}));
            }
        }
    }
    run.set("states", json!(total_nodes + grid_nodes));
    run.set("transitions", json!(total_edges + grid_edges));
    run.set("traces_validated_against_impl", json!(calls.load(Ordering::Relaxed)));
    run.set("per_stream", json!(reports));
    run.set("exhaustive", json!(thorough));
    run.set("joint_grid", json!({"nodes": grid_nodes, "edges": grid_edges, "real_object_schedule_replays": joint_runs}));
    run.count("per_side_edges_executed_on_real_handshake", total_edges);
    run.count("joint_grid_nodes", grid_nodes);
    run.count("streams", cases.len() as u64);
    run.set("explanation", json!("per side: canonical node per offset (prefix delivered in one call), then from every canonical node every call length k: the real process_bytes result must equal the canonical emission for that span, completion iff >= 3073 peer bytes consumed, remaining_bytes exactly the bytes after the handshake, state fingerprint equal to the canonical node (so by induction every partition behaves like the one-call delivery); calls after completion must be refused. Jointly: reachability over the (bytes to server, bytes to client) grid using the verified emission functions (no deadlock, both complete), plus real-object unit-step schedule replays"));
    run.sample(json!({"case": "library server fed a library client's stream + 37 trailing bytes", "calls_end_at": [1536, 3110], "expect": "InProgress(3073 bytes: version byte + two packets once the client's packet 1 is complete), then Completed with the 37 trailing bytes"}));
    run.assume("handshake filler bytes are a sampled dimension (deterministic per seed); they influence only digest values");
    run.assume("the joint grid relies on the per-side result that emissions depend only on the number of bytes consumed (established on the same streams by the all-partitions graph)");
    if run.violation_count() == 0 {
        run.require_hist(&["per_side_edges_executed_on_real_handshake", "joint_grid_nodes", "streams"]);
    }
}

/// Drives a real client and a real server handshake against each other with 1-byte deliveries
/// chosen by a deterministic policy; both must complete with intact trailing bytes.
fn joint_replay(seed: u64, policy: u32, calls: &AtomicU64) -> Result<(), (String, String)> {
    let cs = Side { role: Role::Client, seed: seed * 2 + 1, speaks_first: policy % 2 == 0 };
    let ss = Side { role: Role::Server, seed: seed * 2 + 2, speaks_first: policy % 4 >= 2 || policy % 2 == 1 };
    let (mut c, c_out0) = start(&cs);
    let (mut s, s_out0) = start(&ss);
    let mut to_server: std::collections::VecDeque<u8> = c_out0.into_iter().collect();
    let mut to_client: std::collections::VecDeque<u8> = s_out0.into_iter().collect();
    let c_tail: Vec<u8> = vec![9, 8, 7, 6, 5];
    let s_tail: Vec<u8> = vec![1, 2, 3];
    let (mut c_done, mut s_done) = (false, false);
    let (mut c_tail_queued, mut s_tail_queued) = (false, false);
    let (mut c_rem, mut s_rem): (Vec<u8>, Vec<u8>) = (Vec::new(), Vec::new());
    let mut step = 0u64;
    let mut x = seed.wrapping_mul(0x9E3779B97F4A7C15) ^ policy as u64;
    loop {
        step += 1;
        if step > 20_000 {
            return Err(("C05/joint-no-progress".into(), "joint exchange did not finish within 20000 unit deliveries".into()));
        }
        // which direction next: policies = alternate, bursts, pseudo-random
        x ^= x << 13;
        x ^= x >> 7;
        x ^= x << 17;
        let prefer_server = match policy / 4 {
            0 => step % 2 == 0,
            _ => x % 3 != 0,
        };
        let can_s = !to_server.is_empty() && !s_done;
        let can_c = !to_client.is_empty() && !c_done;
        if !can_s && !can_c {
            break;
        }
        let deliver_to_server = if can_s && can_c { prefer_server } else { can_s };
        if deliver_to_server {
            let n = if policy % 4 == 3 { to_server.len().min(7) } else { 1 };
            let bytes: Vec<u8> = to_server.drain(..n).collect();
            calls.fetch_add(1, Ordering::Relaxed);
            match feed(&ss, &mut s, &bytes) {
                Res::InProgress(r) => to_client.extend(r),
                Res::Completed(r, rem) => {
                    to_client.extend(r);
                    s_done = true;
                    s_rem = rem;
                    s_rem.extend(to_server.drain(..));
                }
                other => return Err(("C05/joint-error".into(), format!("server: {}", short(&other)))),
            }
        } else {
            let n = if policy % 4 == 3 { to_client.len().min(5) } else { 1 };
            let bytes: Vec<u8> = to_client.drain(..n).collect();
            calls.fetch_add(1, Ordering::Relaxed);
            match feed(&cs, &mut c, &bytes) {
                Res::InProgress(r) => to_server.extend(r),
                Res::Completed(r, rem) => {
                    to_server.extend(r);
                    c_done = true;
                    c_rem = rem;
                    c_rem.extend(to_client.drain(..));
                }
                other => return Err(("C05/joint-error".into(), format!("client: {}", short(&other)))),
            }
        }
        // once a side has emitted all 3073 handshake bytes its application data follows
        if c_done && !c_tail_queued {
            c_tail_queued = true;
            if s_done {
                s_rem.extend(&c_tail);
            } else {
                to_server.extend(c_tail.iter());
            }
        }
        if s_done && !s_tail_queued {
            s_tail_queued = true;
            if c_done {
                c_rem.extend(&s_tail);
            } else {
                to_client.extend(s_tail.iter());
            }
        }
    }
    if !c_done || !s_done {
        return Err(("C05/joint-not-completed".into(), format!("client done: {}, server done: {}", c_done, s_done)));
    }
    if s_rem != c_tail || c_rem != s_tail {
        return Err(("C05/joint-trailing-bytes".into(), format!("server got {:?} (sent {:?}), client got {:?} (sent {:?})", s_rem, c_tail, c_rem, s_tail)));
    }
    Ok(())
}
