pub mod c20;
