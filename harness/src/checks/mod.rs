pub mod c20;
pub mod codec;
pub mod c06;
