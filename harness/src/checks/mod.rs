pub mod c20;
pub mod codec;
pub mod c06;
pub mod c16;
pub mod amf0;
pub mod c11;
pub mod c13;
