//! C18 — everything a session emits stays decodable by a conformant peer, at any uptime, under
//! any subset of dropped droppable packets.
//! E1: the C09/C10 graphs extended with media sends, a controlled clock (anchors around 2^24 and
//! 2^32 ms) and a "drop this droppable packet" choice; oracle: independent decoder R1 + R2/R3.

use super::c09::{self, ServerModel};
use super::c10::{self, CSt, ClientModel};
use super::sess::*;
use crate::bfs::{bfs, BfsOptions, Graph, StepOut};
use crate::counters::Counters;
use crate::ev::Run;
use crate::refmodel::chunk::SpecDecoder;
use crate::refmodel::msg::M;
use crate::util::hash128;
use rml_rtmp::chunk_io::ChunkDeserializer;
use serde_json::{json, Value};

const ANCHORS: [u64; 9] = [0, 1, 0xFF_FFFE, 0xFF_FFFF, 0x100_0000, 0xFFFF_FFFE, 0xFFFF_FFFF, 0x1_0000_0000, 0x1_0000_0001];
const BASE_MS: u64 = 10_000;

const NAMES: [&str; 9] = [
    "packets_decoded_by_spec_decoder", "packets_dropped", "extended_timestamp_messages", "multi_chunk_messages", "clock_advances",
    "droppable_packets", "messages_checked_for_stream_id", "clock_backwards_steps", "uptime_past_2_32",
];

fn expected_epoch(clock_ms: u64, backwards: bool) -> u32 {
    if backwards || clock_ms < BASE_MS { 0 } else { (clock_ms - BASE_MS) as u32 }
}

fn next_anchor(clock_ms: u64) -> Option<u64> {
    let up = clock_ms.saturating_sub(BASE_MS);
    ANCHORS.iter().cloned().find(|a| *a > up).map(|a| a + BASE_MS)
}

/// Decodes the packets that were not dropped; checks the generic C18 clauses.
fn decode_and_check(spec: &mut SpecDecoder, delivered: &[(Vec<u8>, bool)], c: &Counters) -> Result<Vec<Out>, (String, String)> {
    let before = spec.chunks.len();
    let _ = before;
    let mut outs = Vec::new();
    for p in delivered {
        let mut sp = spec.clone();
        sp.chunks.clear();
        match decode_with_spec(&mut sp, std::slice::from_ref(p)) {
            Ok(o) => {
                c.inc(0);
                outs.extend(o);
            }
            Err(e) => {
                return Err(("C18/not-decodable-by-conformant-peer".into(), format!("{} ; packet {}", e, crate::util::hex(&p.0))));
            }
        }
        // per-chunk facts for the histogram (re-parse on the real decoder)
        let n0 = spec.chunks.len();
        let _ = spec.push(&p.0);
        let chunks = &spec.chunks[n0..];
        if chunks.iter().any(|x| x.ext_present) {
            c.inc(2);
        }
        if chunks.len() > 1 {
            c.inc(3);
        }
        spec.chunks.clear();
    }
    Ok(outs)
}

// ---------------------------------------------------------------------------------------------
// server
// ---------------------------------------------------------------------------------------------

#[derive(Clone)]
pub struct SSt {
    h: ServerH,
    lib_de: ChunkDeserializer,
    spec: SpecDecoder,
    model: ServerModel,
    /// an earlier handle_input call returned Err: whatever it had serialized before failing (e.g. an
    /// acknowledgement) was never returned, although the serializer's header history includes it
    failed_input: bool,
}

pub struct SG {
    /// length of the one large media message in the alphabet (more than two chunks at the configured size)
    pub big: usize,
    c: Counters,
}

fn server_expect_msid(a: &SAct, before: &ServerModel) -> Option<u32> {
    match a {
        SAct::Accept { id } | SAct::Reject { id } => match before.out.get(id) {
            Some(c09::Req::Connect { .. }) => Some(0),
            Some(c09::Req::Publish { sid, .. }) | Some(c09::Req::Play { sid, .. }) => Some(*sid),
            None => None,
        },
        SAct::FinishPlaying { sid } | SAct::SendAudio { sid, .. } | SAct::SendVideo { sid, .. } | SAct::SendMeta { sid, .. } => Some(*sid),
        SAct::CreateStream { .. } | SAct::Ping { .. } | SAct::SendPing => Some(0),
        _ => None,
    }
}

fn check_outputs_server(a: &SAct, before: &ServerModel, outs: &[Out], epoch: u32, c: &Counters) -> Result<(), (String, String)> {
    let want_msid = server_expect_msid(a, before);
    for o in outs {
        // droppable only on media the application flagged
        let flagged = matches!(a, SAct::SendAudio { droppable: true, .. } | SAct::SendVideo { droppable: true, .. });
        if o.droppable && !(flagged && matches!(o.m, M::Audio(_) | M::Video(_))) {
            return Err(("C18/droppable-mark-on-unflagged-packet".into(), format!("{:?} produced a droppable packet carrying {:?}", a, short_m(&o.m))));
        }
        let is_cmd_or_data_or_media = matches!(o.m, M::Command { .. } | M::Data(_) | M::Audio(_) | M::Video(_));
        if let Some(w) = want_msid {
            if is_cmd_or_data_or_media {
                c.inc(6);
                if o.msid != w {
                    return Err((
                        format!("C18/unexpected-message-stream/{}", act_kind_s(a)),
                        format!("{:?}: a conformant peer decodes {} on message stream {} instead of {}", a, short_m(&o.m), o.msid, w),
                    ));
                }
            }
        }
        match (a, &o.m) {
            (SAct::SendAudio { ts, len, .. }, M::Audio(d)) | (SAct::SendVideo { ts, len, .. }, M::Video(d)) => {
                let audio = matches!(a, SAct::SendAudio { .. });
                if o.ts != *ts || *d != media_payload(*ts ^ if audio { 8 } else { 9 }, *len) {
                    return Err(("C18/media-timestamp-or-payload".into(), format!("{:?} decodes with timestamp {} and {} bytes", a, o.ts, d.len())));
                }
            }
            (_, M::SetChunkSize(_)) => {}
            (_, M::Audio(_)) | (_, M::Video(_)) => {}
            _ => {
                // control/command timestamps are the session's business (the statement does not prescribe
                // them); whether the wire encodes what the session meant is judged by decoder agreement
                let _ = epoch;
            }
        }
    }
    Ok(())
}

/// The independent decoder and the library's own decoder must read the same messages out of the
/// same packets (same stream, timestamp, body); a disagreement means the bytes do not say what
/// the serializer's own view of them is.
fn decoders_agree(spec: &[Out], lib: &[Out]) -> Result<(), (String, String)> {
    if lib.is_empty() {
        return Ok(());
    }
    if spec.len() != lib.len() {
        return Err(("C18/decoders-disagree/count".into(), format!("conformant decoder reads {} messages, the library's own decoder {}", spec.len(), lib.len())));
    }
    for (a, b) in spec.iter().zip(lib.iter()) {
        if a.msid != b.msid || a.ts != b.ts || a.m != b.m {
            let what = if a.msid != b.msid { "message-stream" } else if a.ts != b.ts { "timestamp" } else { "body" };
            return Err((format!("C18/decoders-disagree/{}", what), format!("conformant decoder reads (stream {}, ts {}, {}), the library's own decoder (stream {}, ts {}, {})", a.msid, a.ts, short_m(&a.m), b.msid, b.ts, short_m(&b.m))));
        }
    }
    Ok(())
}

/// A decode failure after an earlier handle_input call returned Err has a known cause (the output
/// that call had already serialized was dropped together with its results); it is reported under
/// its own signature so that it can be listed as a known finding without hiding anything else.
fn after_failed(e: (String, String), was_failed: bool) -> (String, String) {
    if was_failed && e.0 == "C18/not-decodable-by-conformant-peer" {
        ("C18/not-decodable-after-a-failed-handle_input-call".to_string(), format!("{} ; an earlier handle_input call had returned Err after serializing output (e.g. an acknowledgement) that was never returned", e.1))
    } else {
        e
    }
}

fn short_m(m: &M) -> String {
    let s = format!("{:?}", m);
    if s.chars().count() > 140 { format!("{}...", s.chars().take(140).collect::<String>()) } else { s }
}

fn act_kind_s(a: &SAct) -> &'static str {
    match a {
        SAct::Accept { .. } => "accept_request",
        SAct::Reject { .. } => "reject_request",
        SAct::FinishPlaying { .. } => "finish_playing",
        SAct::SendAudio { .. } | SAct::SendVideo { .. } => "send_media",
        SAct::SendMeta { .. } => "send_metadata",
        SAct::CreateStream { .. } => "createStream",
        SAct::Ping { .. } | SAct::SendPing => "ping",
        _ => "other",
    }
}

impl Graph for SG {
    type State = SSt;
    type Action = SAct;

    fn actions(&self, s: &SSt) -> Vec<SAct> {
        let m = &s.model;
        let mut v = Vec::new();
        let live: Vec<u32> = m.issued_streams.iter().cloned().collect();
        if m.out.len() < 2 {
            v.push(SAct::Connect { tx: 1.0, app: "a".into() });
            for &sid in live.iter() {
                v.push(SAct::Publish { sid, key: "k1".into(), mode: "live".into() });
                v.push(SAct::Play { sid, key: "k2".into() });
            }
            if m.connected.is_none() {
                v.push(SAct::Play { sid: 1, key: "k2".into() });
            }
        }
        if m.issued_streams.len() < 2 {
            v.push(SAct::CreateStream { tx: 2.0 + 5.0 * m.issued_streams.len() as f64 });
        }
        for &sid in live.iter() {
            v.push(SAct::DeleteStream { sid });
            v.push(SAct::FinishPlaying { sid });
        }
        v.push(SAct::Ping { ts: 0xFFFF_FFFF });
        // the peer announces a small acknowledgement window: from then on acknowledgements are
        // interleaved with the session's other output on chunk stream 2
        if s.h.s.verif_ack_state().0.is_none() {
            v.push(SAct::Raw { msid: 0, type_id: 5, body: vec![0, 0, 0, 40] });
        }
        for id in m.out.keys() {
            v.push(SAct::Accept { id: *id });
            v.push(SAct::Reject { id: *id });
        }
        let mut targets = live.clone();
        if targets.is_empty() {
            targets.push(1);
        }
        for &sid in targets.iter().take(2) {
            v.push(SAct::SendAudio { sid, ts: 0xFF_FFFF, len: 3, droppable: true });
            v.push(SAct::SendAudio { sid, ts: 5, len: 0, droppable: false });
            v.push(SAct::SendVideo { sid, ts: 0xFFFF_FFFF, len: self.big, droppable: true });
            v.push(SAct::SendVideo { sid, ts: 0x100_0000, len: 3, droppable: false });
            v.push(SAct::SendMeta { sid, variant: 5 });
        }
        v.push(SAct::SendPing);
        if let Some(n) = next_anchor(s.h.clock_ms) {
            v.push(SAct::Clock { ms: n, backwards: false });
        }
        if !s.h.clock_backwards {
            v.push(SAct::Clock { ms: s.h.clock_ms, backwards: true });
        } else {
            v.push(SAct::Clock { ms: s.h.clock_ms, backwards: false });
        }
        v
    }

    fn step(&self, s: &SSt, a: &SAct) -> StepOut<SSt> {
        let mut out = StepOut::new();
        let mut n = s.clone();
        let before_model = n.model.clone();
        let fpb = n.h.fp_logic();
        let o = n.h.step(a);
        out.impl_steps += 1;
        if let SAct::Clock { ms, backwards } = a {
            self.c.inc(4);
            if *backwards {
                self.c.inc(7);
            }
            if *ms >= BASE_MS + (1u64 << 32) {
                self.c.inc(8);
            }
            out.succ.push(n);
            return out;
        }
        if let Some(p) = &o.panicked {
            out.viol.push(("C18/panic".into(), format!("{:?}: {}", a, p)));
            return out;
        }
        let fpa = n.h.fp_logic();
        let was_failed = n.failed_input;
        if o.err.is_some() && n.h.clone().peer_bytes(a).is_some() {
            n.failed_input = true;
        }
        // keep the C09 model in step (its own violations are C09's to report)
        let lib_outs = match decode_with_lib(&mut n.lib_de, &o.packets) {
            Ok(x) => x,
            Err(_) => Vec::new(),
        };
        // the protocol model decides whether this branch is explored further; what the packets look
        // like to a conformant peer is judged in any case
        let model_ok = n.model.check(a, &o, &lib_outs, &fpb, &fpa).is_ok();
        let epoch = expected_epoch(n.h.clock_ms, n.h.clock_backwards);
        // every subset of the droppable packets of this step
        let drop_idx: Vec<usize> = o.packets.iter().enumerate().filter(|(_, p)| p.1).map(|(i, _)| i).collect();
        self.c.add(5, drop_idx.len() as u64);
        for mask in 0..(1u32 << drop_idx.len().min(4)) {
            let mut delivered = Vec::new();
            for (i, p) in o.packets.iter().enumerate() {
                let pos = drop_idx.iter().position(|x| *x == i);
                let dropped = pos.map(|b| mask & (1 << b) != 0).unwrap_or(false);
                if dropped {
                    self.c.inc(1);
                } else {
                    delivered.push(p.clone());
                }
            }
            let mut m = n.clone();
            match decode_and_check(&mut m.spec, &delivered, &self.c) {
                Err(e) => {
                    out.viol.push(after_failed(e, was_failed));
                    return out;
                }
                Ok(outs) => {
                    if let Err(e) = check_outputs_server(a, &before_model, &outs, epoch, &self.c) {
                        out.viol.push(e);
                        return out;
                    }
                    if mask == 0 {
                        if let Err(e) = decoders_agree(&outs, &lib_outs) {
                            out.viol.push((e.0, format!("{:?}: {}", a, e.1)));
                            return out;
                        }
                    }
                }
            }
            if model_ok {
                out.succ.push(m);
            }
        }
        out
    }

    fn key(&self, s: &SSt) -> u128 {
        let mut v = s.h.fp_full();
        v.push(0xDD);
        s.spec.fingerprint(&mut v);
        v.push(0xDE);
        s.model.fingerprint(&mut v);
        v.push(s.failed_input as u8);
        hash128(&v)
    }

    fn describe(&self, a: &SAct) -> Value {
        describe_sact(a)
    }
}

fn server_start(chunk_size: u32) -> Result<SSt, (String, String)> {
    let mut cfg = default_server_cfg();
    cfg.chunk_size = chunk_size;
    let (h, o) = ServerH::new(cfg, BASE_MS).map_err(|e| ("C18/session-construction".to_string(), e))?;
    let mut spec = SpecDecoder::new();
    let c = Counters::new(&NAMES);
    let outs = decode_and_check(&mut spec, &o.packets, &c)?;
    for x in outs.iter() {
        if x.droppable {
            return Err(("C18/droppable-mark-on-unflagged-packet".into(), "initial packets".into()));
        }
    }
    let mut lib_de = ChunkDeserializer::new();
    let _ = decode_with_lib(&mut lib_de, &o.packets);
    Ok(SSt { h, lib_de, spec, model: ServerModel::default(), failed_input: false })
}

// ---------------------------------------------------------------------------------------------
// client
// ---------------------------------------------------------------------------------------------

#[derive(Clone)]
pub struct CStt {
    h: ClientH,
    lib_de: ChunkDeserializer,
    spec: SpecDecoder,
    model: ClientModel,
    failed_input: bool,
}

pub struct CG {
    pub big: usize,
    c: Counters,
}

impl Graph for CG {
    type State = CStt;
    type Action = CAct;

    fn actions(&self, s: &CStt) -> Vec<CAct> {
        let m = &s.model;
        let mut v = Vec::new();
        if m.out.len() < 2 {
            if m.st == CSt::Disconnected {
                v.push(CAct::RequestConnection { app: "a".into() });
            }
            if m.st == CSt::Connected {
                v.push(CAct::RequestPlayback { key: "k1".into() });
                v.push(CAct::RequestPublishing { key: "k2".into(), kind: 0 });
            }
        }
        v.push(CAct::StopPlayback);
        v.push(CAct::StopPublishing);
        if m.st == CSt::Publishing {
            v.push(CAct::PublishMeta { variant: 5 });
            v.push(CAct::PublishVideo { ts: 0xFFFF_FFFF, len: self.big, droppable: true });
            v.push(CAct::PublishVideo { ts: 0x100_0000, len: 3, droppable: false });
            v.push(CAct::PublishAudio { ts: 0xFF_FFFF, len: 3, droppable: true });
            v.push(CAct::PublishAudio { ts: 5, len: 0, droppable: false });
        }
        v.push(CAct::SendPing);
        for t in m.out.keys() {
            v.push(CAct::Result { tx: *t as f64, stream: Some(5.0) });
            v.push(CAct::Error { tx: *t as f64 });
        }
        v.push(CAct::OnStatus { code: "NetStream.Play.Start".into() });
        v.push(CAct::OnStatus { code: "NetStream.Publish.Start".into() });
        v.push(CAct::Ping { ts: 0xFFFF_FFFF });
        if s.h.c.verif_ack_state().0.is_none() {
            v.push(CAct::Raw { msid: 0, type_id: 5, body: vec![0, 0, 0, 40] });
        }
        if let Some(n) = next_anchor(s.h.clock_ms) {
            v.push(CAct::Clock { ms: n, backwards: false });
        }
        v.push(CAct::Clock { ms: s.h.clock_ms, backwards: !s.h.clock_backwards });
        v
    }

    fn step(&self, s: &CStt, a: &CAct) -> StepOut<CStt> {
        let mut out = StepOut::new();
        let mut n = s.clone();
        let before = n.model.clone();
        let fpb = n.h.fp_logic();
        let o = n.h.step(a);
        out.impl_steps += 1;
        if let CAct::Clock { ms, backwards } = a {
            self.c.inc(4);
            if *backwards {
                self.c.inc(7);
            }
            if *ms >= BASE_MS + (1u64 << 32) {
                self.c.inc(8);
            }
            out.succ.push(n);
            return out;
        }
        if let Some(p) = &o.panicked {
            out.viol.push(("C18/panic".into(), format!("{:?}: {}", a, p)));
            return out;
        }
        let fpa = n.h.fp_logic();
        let was_failed = n.failed_input;
        if o.err.is_some() && n.h.clone().peer_bytes(a).is_some() {
            n.failed_input = true;
        }
        let lib_outs = decode_with_lib(&mut n.lib_de, &o.packets).unwrap_or_default();
        let model_ok = n.model.check(a, &o, &lib_outs, &fpb, &fpa).is_ok();
        let epoch = expected_epoch(n.h.clock_ms, n.h.clock_backwards);
        let drop_idx: Vec<usize> = o.packets.iter().enumerate().filter(|(_, p)| p.1).map(|(i, _)| i).collect();
        self.c.add(5, drop_idx.len() as u64);
        for mask in 0..(1u32 << drop_idx.len().min(4)) {
            let mut delivered = Vec::new();
            for (i, p) in o.packets.iter().enumerate() {
                let pos = drop_idx.iter().position(|x| *x == i);
                if pos.map(|b| mask & (1 << b) != 0).unwrap_or(false) {
                    self.c.inc(1);
                } else {
                    delivered.push(p.clone());
                }
            }
            let mut m = n.clone();
            let outs = match decode_and_check(&mut m.spec, &delivered, &self.c) {
                Err(e) => {
                    out.viol.push(after_failed(e, was_failed));
                    return out;
                }
                Ok(x) => x,
            };
            for o2 in outs.iter() {
                let flagged = matches!(a, CAct::PublishAudio { droppable: true, .. } | CAct::PublishVideo { droppable: true, .. });
                if o2.droppable && !(flagged && matches!(o2.m, M::Audio(_) | M::Video(_))) {
                    out.viol.push(("C18/droppable-mark-on-unflagged-packet".into(), format!("{:?} produced a droppable packet carrying {}", a, short_m(&o2.m))));
                    return out;
                }
                // expected message streams: requests on 0, play/publish/deleteStream/media on the active stream
                let want: Option<u32> = match (&o2.m, a) {
                    (M::Command { name, .. }, _) if name == "connect" || name == "createStream" => Some(0),
                    (M::Command { name, .. }, CAct::Result { stream: Some(n), .. }) if name == "play" || name == "publish" => Some(*n as u32),
                    (M::Command { name, .. }, _) if name == "deleteStream" => before.active,
                    (M::Audio(_), _) | (M::Video(_), _) | (M::Data(_), _) => before.active,
                    _ => None,
                };
                if let Some(w) = want {
                    self.c.inc(6);
                    if o2.msid != w {
                        out.viol.push(("C18/unexpected-message-stream/client".into(), format!("{:?}: a conformant peer decodes {} on message stream {} instead of {}", a, short_m(&o2.m), o2.msid, w)));
                        return out;
                    }
                }
                match (a, &o2.m) {
                    (CAct::PublishAudio { ts, len, .. }, M::Audio(d)) | (CAct::PublishVideo { ts, len, .. }, M::Video(d)) => {
                        let audio = matches!(a, CAct::PublishAudio { .. });
                        if o2.ts != *ts || *d != media_payload(*ts ^ if audio { 8 } else { 9 }, *len) {
                            out.viol.push(("C18/media-timestamp-or-payload".into(), format!("{:?} decodes with timestamp {} and {} bytes", a, o2.ts, d.len())));
                            return out;
                        }
                    }
                    (_, M::SetChunkSize(_)) => {}
                    _ => {
                        let _ = epoch;
                    }
                }
            }
            if mask == 0 {
                if let Err(e) = decoders_agree(&outs, &lib_outs) {
                    out.viol.push((e.0, format!("{:?}: {}", a, e.1)));
                    return out;
                }
            }
            if model_ok {
                out.succ.push(m);
            }
        }
        out
    }

    fn key(&self, s: &CStt) -> u128 {
        let mut v = s.h.fp_full();
        v.push(0xDD);
        s.spec.fingerprint(&mut v);
        v.push(0xDE);
        s.model.fingerprint(&mut v);
        v.push(s.failed_input as u8);
        hash128(&v)
    }

    fn describe(&self, a: &CAct) -> Value {
        describe_cact(a)
    }
}

fn client_start(chunk_size: u32) -> Result<CStt, (String, String)> {
    let mut cfg = default_client_cfg();
    cfg.chunk_size = chunk_size;
    let (h, _o) = ClientH::new(cfg, BASE_MS).map_err(|e| ("C18/session-construction".to_string(), e))?;
    Ok(CStt { h, lib_de: ChunkDeserializer::new(), spec: SpecDecoder::new(), model: ClientModel::default(), failed_input: false })
}

pub fn run(run: &Run) {
    let thorough = run.thorough();
    let agg = Counters::new(&NAMES);
    let (mut ts, mut tt, mut ti) = (0u64, 0u64, 0u64);
    let mut reports = Vec::new();

    // ---- server ----
    let connect = vec![SAct::Connect { tx: 1.0, app: "a".into() }, SAct::Accept { id: 0 }];
    let mut two = connect.clone();
    two.extend(vec![SAct::CreateStream { tx: 2.0 }, SAct::CreateStream { tx: 7.0 }]);
    let mut busy = two.clone();
    busy.extend(vec![
        SAct::Publish { sid: 1, key: "k1".into(), mode: "live".into() }, SAct::Accept { id: 1 },
        SAct::Play { sid: 2, key: "k2".into() }, SAct::Accept { id: 2 },
    ]);
    let late = |ms: u64| SAct::Clock { ms: BASE_MS + ms, backwards: false };
    let mut splans: Vec<(String, u32, Vec<SAct>, usize)> = Vec::new();
    for &cs in if thorough { &[128u32, 1, 4096][..] } else { &[128u32, 1][..] } {
        let d = if thorough { 5 } else { 4 };
        splans.push((format!("server chunk size {}: fresh session", cs), cs, vec![], d + 1));
        splans.push((format!("server chunk size {}: connected, two streams", cs), cs, two.clone(), d));
        let mut p = connect.clone();
        p.push(late(0xFF_FFFE));
        p.extend(vec![SAct::CreateStream { tx: 2.0 }, SAct::CreateStream { tx: 7.0 }]);
        splans.push((format!("server chunk size {}: connected, then uptime 2^24-2 ms", cs), cs, p, d));
        let mut p = busy.clone();
        p.insert(0, late(0xFFFF_FFFE));
        splans.push((format!("server chunk size {}: started at uptime 2^32-2 ms, publishing and playing", cs), cs, p, d));
        if thorough {
            splans.push((format!("server chunk size {}: publishing and playing", cs), cs, busy.clone(), d));
        }
    }
    // chunk sizes above the buffering thresholds one might find in a serializer (4 KiB, 64 KiB): busy session only
    for &cs in if thorough { &[5_000u32, 70_000][..] } else { &[5_000u32][..] } {
        splans.push((format!("server chunk size {}: publishing and playing", cs), cs, busy.clone(), 3));
    }
    // a peer that announced an acknowledgement window first: acknowledgements interleave from the start
    for &cs in &[128u32, 1] {
        let w = SAct::Raw { msid: 0, type_id: 5, body: vec![0, 0, 0, 40] };
        let mut p = vec![w.clone()];
        p.extend(connect.clone());
        splans.push((format!("server chunk size {}: peer window 40 announced, connected", cs), cs, p, if thorough { 5 } else { 4 }));
        let mut p = vec![w];
        p.extend(busy.clone());
        splans.push((format!("server chunk size {}: peer window 40 announced, publishing and playing", cs), cs, p, if thorough { 5 } else { 3 }));
    }
    for (name, cs, prefix, depth) in splans {
        let g = SG { c: Counters::new(&NAMES), big: if cs > 128 { 2 * cs as usize + 2_000 } else { 200 } };
        let mut cur = match server_start(cs) {
            Ok(s) => s,
            Err((sig, d)) => {
                run.violation(&sig, &d, json!({"plan": name, "ops": []}));
                continue;
            }
        };
        let mut failed = false;
        for (i, a) in prefix.iter().enumerate() {
            let o = g.step(&cur, a);
            if let Some((sig, d)) = o.viol.into_iter().next() {
                run.violation(&sig, &d, json!({"plan": name, "server_chunk_size": cs, "ops": prefix[..=i].iter().map(describe_sact).collect::<Vec<_>>()}));
                failed = true;
                break;
            }
            cur = match o.succ.into_iter().next() {
                Some(s) => s,
                None => {
                    failed = true;
                    break;
                }
            };
        }
        if failed {
            continue;
        }
        let opts = BfsOptions { max_depth: Some(depth), max_states: Some(if thorough { 20_000_000 } else { 1_500_000 }), ..Default::default() };
        let (stats, viols) = bfs(&g, vec![cur], &opts);
        run.sample_paths(&name, &stats.sample_paths);
        ts += stats.states;
        tt += stats.transitions;
        ti += stats.impl_steps;
        for v in viols {
            let mut ops: Vec<Value> = prefix.iter().map(describe_sact).collect();
            ops.extend(v.path);
            run.violation(&v.signature, &v.detail, json!({"plan": name, "server_chunk_size": cs, "ops": ops}));
        }
        for i in 0..NAMES.len() {
            agg.add(i, g.c.get(i));
        }
        reports.push(json!({"plan": name, "depth_bound": depth, "states": stats.states, "transitions": stats.transitions, "level_sizes": stats.level_sizes, "cap": stats.cap_hit}));
    }

    // ---- client ----
    let prefs = c10::prefixes();
    for &cs in if thorough { &[128u32, 1, 4096, 5_000, 70_000][..] } else { &[128u32, 1, 5_000][..] } {
        for (pi, (pname, prefix)) in prefs.iter().enumerate() {
            if !thorough && !(pi == 0 || pi == 5 || pi == 2) {
                continue;
            }
            if cs >= 5_000 && pi != 5 {
                continue;
            }
            for &up in &[0u64, 0xFF_FFFE, 0xFFFF_FFFE] {
                if !thorough && up == 0xFF_FFFE && pi != 5 {
                    continue;
                }
                let name = format!("client chunk size {}: {} at uptime {} ms", cs, pname, up);
                let g = CG { c: Counters::new(&NAMES), big: if cs > 128 { 2 * cs as usize + 2_000 } else { 200 } };
                let mut cur = match client_start(cs) {
                    Ok(s) => s,
                    Err((sig, d)) => {
                        run.violation(&sig, &d, json!({"plan": name}));
                        continue;
                    }
                };
                let mut full: Vec<CAct> = vec![CAct::Clock { ms: BASE_MS + up, backwards: false }];
                // every other plan starts with the server's window announcement (acknowledgements then
                // interleave with the client's own control messages on chunk stream 2)
                if pi % 2 == 1 || (pi == 5 && up == 0) {
                    full.push(CAct::Raw { msid: 0, type_id: 5, body: vec![0, 0, 0, 40] });
                }
                full.extend(prefix.iter().cloned());
                let mut failed = false;
                for (i, a) in full.iter().enumerate() {
                    let o = g.step(&cur, a);
                    if let Some((sig, d)) = o.viol.into_iter().next() {
                        run.violation(&sig, &d, json!({"plan": name, "client_chunk_size": cs, "ops": full[..=i].iter().map(describe_cact).collect::<Vec<_>>()}));
                        failed = true;
                        break;
                    }
                    cur = match o.succ.into_iter().next() {
                        Some(s) => s,
                        None => {
                            failed = true;
                            break;
                        }
                    };
                }
                if failed {
                    continue;
                }
                let depth = if thorough { 6 } else { 4 };
                let opts = BfsOptions { max_depth: Some(depth), max_states: Some(if thorough { 10_000_000 } else { 1_000_000 }), ..Default::default() };
                let (stats, viols) = bfs(&g, vec![cur], &opts);
                run.sample_paths(&name, &stats.sample_paths);
                ts += stats.states;
                tt += stats.transitions;
                ti += stats.impl_steps;
                for v in viols {
                    let mut ops: Vec<Value> = full.iter().map(describe_cact).collect();
                    ops.extend(v.path);
                    run.violation(&v.signature, &v.detail, json!({"plan": name, "client_chunk_size": cs, "ops": ops}));
                }
                for i in 0..NAMES.len() {
                    agg.add(i, g.c.get(i));
                }
                reports.push(json!({"plan": name, "depth_bound": depth, "states": stats.states, "transitions": stats.transitions, "cap": stats.cap_hit}));
            }
        }
    }
    // ---- message stream ids as a value dimension: every id 0..=70 and ids around byte boundaries ----
    {
        let mut scripts = 0u64;
        let mut scripts_done = 0u64;
        let ids: Vec<u32> = (0..=70u32).chain([255, 256, 257, 65_535, 65_536, 0xFF_FFFF, 0x100_0000, 0x7FFF_FFFF, 0x8000_0000, 0xFFFF_FFFE]).collect();
        // client: the server answers createStream with the id
        for &sid in ids.iter() {
            let g = CG { c: Counters::new(&NAMES), big: 200 };
            let mut cur = match client_start(128) {
                Ok(s) => s,
                Err(_) => continue,
            };
            let script = vec![
                CAct::RequestConnection { app: "a".into() }, CAct::Result { tx: 1.0, stream: None },
                CAct::RequestPublishing { key: "k".into(), kind: 0 }, CAct::Result { tx: 2.0, stream: Some(sid as f64) },
                CAct::OnStatus { code: "NetStream.Publish.Start".into() },
                CAct::PublishVideo { ts: 10, len: 3, droppable: false }, CAct::PublishAudio { ts: 12, len: 200, droppable: true },
                CAct::PublishMeta { variant: 5 }, CAct::PublishVideo { ts: 50, len: 3, droppable: false }, CAct::PublishAudio { ts: 52, len: 0, droppable: false },
                // the connection is used again after the activity ended: a second publish with messages longer than the
                // default chunk size, at equal and at falling timestamps
                CAct::StopPublishing, CAct::RequestPublishing { key: "k2".into(), kind: 1 }, CAct::Result { tx: 3.0, stream: Some(sid.wrapping_add(1) as f64) },
                CAct::OnStatus { code: "NetStream.Publish.Start".into() },
                CAct::PublishVideo { ts: 60, len: 600, droppable: false }, CAct::PublishVideo { ts: 60, len: 600, droppable: false }, CAct::PublishAudio { ts: 60, len: 5, droppable: false },
                CAct::PublishAudio { ts: 60, len: 5, droppable: false }, CAct::PublishAudio { ts: 40, len: 5, droppable: true }, CAct::PublishMeta { variant: 16 },
                CAct::PublishAudio { ts: 1000, len: 160, droppable: false }, CAct::PublishAudio { ts: 1020, len: 160, droppable: false }, CAct::PublishAudio { ts: 1040, len: 160, droppable: false },
                CAct::PublishAudio { ts: 1060, len: 160, droppable: false }, CAct::PublishAudio { ts: 1080, len: 160, droppable: false }, CAct::PublishAudio { ts: 1130, len: 160, droppable: false },
                CAct::PublishAudio { ts: 1180, len: 7, droppable: false },
            ];
            let mut done: Vec<Value> = Vec::new();
            let mut finished = true;
            for a in script.iter() {
                let o = g.step(&cur, a);
                ti += o.impl_steps;
                tt += 1;
                done.push(describe_cact(a));
                if let Some((sig, d)) = o.viol.into_iter().next() {
                    run.violation(&sig, &d, json!({"plan": "client publishing on message stream id sweep", "message_stream_id": sid, "ops": done}));
                    finished = false;
                    break;
                }
                // the successor in which nothing was dropped comes first
                cur = match o.succ.into_iter().next() {
                    Some(x) => x,
                    None => {
                        finished = false;
                        run.cap_hit(&format!("client stream-id script for id {} stopped at step {} ({:?}): the protocol model did not accept the step", sid, done.len(), a));
                        break;
                    }
                };
            }
            if finished {
                scripts_done += 1;
            }
            scripts += 1;
        }
        // server: the id is the number of streams created so far on the connection
        for target in [1u32, 14, 15, 16, 63, 64, 65, 70] {
            let g = SG { c: Counters::new(&NAMES), big: 200 };
            let mut cur = match server_start(128) {
                Ok(s) => s,
                Err(_) => continue,
            };
            let mut script: Vec<SAct> = vec![SAct::Connect { tx: 1.0, app: "a".into() }, SAct::Accept { id: 0 }];
            for k in 0..target {
                script.push(SAct::CreateStream { tx: 2.0 + k as f64 });
            }
            script.extend(vec![
                SAct::Play { sid: target, key: "k".into() }, SAct::Accept { id: 1 },
                SAct::SendVideo { sid: target, ts: 10, len: 3, droppable: false }, SAct::SendAudio { sid: target, ts: 12, len: 200, droppable: true },
                SAct::SendMeta { sid: target, variant: 5 }, SAct::SendVideo { sid: target, ts: 50, len: 3, droppable: false }, SAct::SendAudio { sid: target, ts: 52, len: 0, droppable: false },
                // equal and falling timestamps, messages longer than the default chunk size, then a second playback
                SAct::SendVideo { sid: target, ts: 60, len: 600, droppable: false }, SAct::SendVideo { sid: target, ts: 60, len: 600, droppable: false },
                SAct::SendAudio { sid: target, ts: 60, len: 5, droppable: false }, SAct::SendAudio { sid: target, ts: 60, len: 5, droppable: false }, SAct::SendAudio { sid: target, ts: 40, len: 5, droppable: true },
                SAct::FinishPlaying { sid: target }, SAct::Play { sid: target, key: "k2".into() }, SAct::Accept { id: 2 },
                SAct::SendVideo { sid: target, ts: 70, len: 600, droppable: false }, SAct::SendMeta { sid: target, variant: 16 },
                // constant-bit-rate audio: equal sizes at a constant spacing (type 3 chunks start the messages), then a
                // different spacing
                SAct::SendAudio { sid: target, ts: 1000, len: 160, droppable: false }, SAct::SendAudio { sid: target, ts: 1020, len: 160, droppable: false },
                SAct::SendAudio { sid: target, ts: 1040, len: 160, droppable: false }, SAct::SendAudio { sid: target, ts: 1060, len: 160, droppable: false },
                SAct::SendAudio { sid: target, ts: 1080, len: 160, droppable: false }, SAct::SendAudio { sid: target, ts: 1130, len: 160, droppable: false },
                SAct::SendAudio { sid: target, ts: 1180, len: 7, droppable: false },
            ]);
            let mut done: Vec<Value> = Vec::new();
            let mut finished = true;
            for a in script.iter() {
                let o = g.step(&cur, a);
                ti += o.impl_steps;
                tt += 1;
                if done.len() < 30 || !matches!(a, SAct::CreateStream { .. }) {
                    done.push(describe_sact(a));
                }
                if let Some((sig, d)) = o.viol.into_iter().next() {
                    run.violation(&sig, &d, json!({"plan": "server playing on the n-th created stream", "message_stream_id": target, "ops": done}));
                    finished = false;
                    break;
                }
                cur = match o.succ.into_iter().next() {
                    Some(x) => x,
                    None => {
                        finished = false;
                        run.cap_hit(&format!("server stream-id script for id {} stopped at {:?}: the protocol model did not accept the step", target, a));
                        break;
                    }
                };
            }
            if finished {
                scripts_done += 1;
            }
            scripts += 1;
        }
        run.count("message_stream_id_scripts", scripts);
        run.count("message_stream_id_scripts_run_to_the_end", scripts_done);
    }
    run.merge_hist(&agg.map());
    run.set("states", json!(ts));
    run.set("transitions", json!(tt));
    run.set("traces_validated_against_impl", json!(ti));
    run.set("plans", json!(reports));
    run.set("exhaustive", json!(false));
    run.set("clock_anchors_ms_uptime", json!(ANCHORS));
    run.set("bound", json!("all action sequences up to the stated depth from each prepared state; each droppable packet is both delivered and dropped (all subsets, as separate successor states with a lagging receiver)"));
    run.set("explanation", json!("every transition calls the real session; every returned packet that is not dropped is decoded by the independent specification decoder R1 (whole chunks only, no trailing bytes, chunk sizes announced before use) and its body by R2/R3; command/data/media messages must arrive on the message stream the API call names, media with the application's timestamp and payload, the droppable mark only on flagged media; when nothing is dropped the independent decoder and the library's own decoder must read identical (stream, timestamp, body) triples"));
    run.sample(json!({"ops": ["Connect", "Accept{0}", "CreateStream", "Play{1,k2}", "Accept{1}"], "expect": "all five returned packets decode, onStatus messages on message stream 1"}));
    run.assume("node key = full session fingerprint (logic + both codecs + clock) + receiver-side decoder state + protocol model");
    if run.violation_count() == 0 {
        run.require_hist(&["packets_decoded_by_spec_decoder", "packets_dropped", "extended_timestamp_messages", "multi_chunk_messages", "clock_advances", "messages_checked_for_stream_id", "clock_backwards_steps", "uptime_past_2_32"]);
    }
}
