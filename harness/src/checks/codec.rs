//! C01 / C07 / C08 — product graph of the real ChunkSerializer with the real ChunkDeserializer
//! (C01, C08) and with the independent specification decoder R1 (C07, C08), explored to fixpoint
//! over finite alphabets ("slices").

use crate::bfs::{bfs, BfsOptions, Graph, StepOut};
use crate::counters::Counters;
use crate::ev::Run;
use crate::refmodel::chunk::{Msg, SpecDecoder};
use crate::util::{guarded, hash128, hex, pattern};
use bytes::Bytes;
use rml_rtmp::chunk_io::{ChunkDeserializer, ChunkSerializer};
use rml_rtmp::messages::MessagePayload;
use rml_rtmp::time::RtmpTimestamp;
use serde_json::{json, Value};

#[derive(Clone, Copy, PartialEq, Eq, Debug)]
pub enum Mode {
    C01,
    C07,
    C08,
}

#[derive(Clone)]
pub struct St {
    ser: ChunkSerializer,
    de: Option<ChunkDeserializer>,
    spec: Option<SpecDecoder>,
}

#[derive(Clone, Debug)]
pub enum Act {
    Msg {
        ty: u8,
        msid: u32,
        ts: u32,
        len: usize,
        force: bool,
        drop: bool,
        deliver: bool,
    },
    SetChunk {
        n: u32,
        ts: u32,
    },
}

#[derive(Clone, Debug)]
pub struct Slice {
    pub name: &'static str,
    pub types: Vec<u8>,
    pub msids: Vec<u32>,
    pub tss: Vec<u32>,
    pub lens: Vec<usize>,
    pub forces: Vec<bool>,
    pub drops: Vec<bool>,
    pub setchunks: Vec<u32>,
    pub init_chunk: Option<u32>,
}

// counter slots
const K_FMT0: usize = 0;
const K_FMT1: usize = 1;
const K_FMT2: usize = 2;
const K_FMT3_NEW: usize = 3;
const K_EXT_FIRST: usize = 4;
const K_EXT_CONT: usize = 5;
const K_MULTI: usize = 6;
const K_ZERO: usize = 7;
const K_RESTATED: usize = 8;
const K_DROPPED: usize = 9;
const K_SETCHUNK: usize = 10;
const K_CUTS: usize = 11;
const K_BYTEWISE: usize = 12;
const K_EDGES: usize = 13;
const K_AFTER_DROP_FMT0: usize = 14;
const NAMES: [&str; 15] = [
    "first_chunk_fmt0",
    "first_chunk_fmt1",
    "first_chunk_fmt2",
    "first_chunk_fmt3_new_message",
    "extended_timestamp_on_first_chunk",
    "extended_timestamp_on_continuation_chunk",
    "multi_chunk_messages",
    "zero_length_messages",
    "fmt0_restated_on_continuation",
    "packets_dropped",
    "set_chunk_size_edges",
    "two_way_cut_deliveries",
    "bytewise_deliveries",
    "message_edges",
    "deliveries_to_receiver_that_missed_the_previous_packet",
];

pub struct CodecGraph {
    pub mode: Mode,
    pub slice: Slice,
    pub counters: Counters,
}

fn payload_for(ty: u8, msid: u32, ts: u32, len: usize) -> Vec<u8> {
    if ty == 2 && len == 4 && ts < 0x1_0000 {
        // an Abort message: its body names a chunk stream id (the timestamp doubles as that id in the scripts below)
        return ts.to_be_bytes().to_vec();
    }
    let tag = (ty as u32)
        .wrapping_mul(0x01000193)
        .wrapping_add(msid.wrapping_mul(0x9E3779B1))
        .wrapping_add(ts.wrapping_mul(0x85EBCA6B));
    pattern(tag, len)
}

fn key_of(st: &St, with_spec: bool) -> u128 {
    let mut v = Vec::with_capacity(512);
    st.ser.verif_fingerprint(&mut v);
    v.push(0xAA);
    if let Some(ref de) = st.de {
        de.verif_fingerprint(&mut v);
    }
    v.push(0xBB);
    if with_spec {
        if let Some(ref sp) = st.spec {
            sp.fingerprint(&mut v);
        }
    }
    hash128(&v)
}

/// Compares a decoded library payload with the expected message; returns the differing field.
fn diff_lib(got: &MessagePayload, exp: &Msg) -> Option<String> {
    if got.type_id != exp.type_id {
        return Some(format!("type_id {} != {}", got.type_id, exp.type_id));
    }
    if got.message_stream_id != exp.msid {
        return Some(format!("message_stream_id {} != {}", got.message_stream_id, exp.msid));
    }
    if got.timestamp.value != exp.ts {
        return Some(format!("timestamp {} != {}", got.timestamp.value, exp.ts));
    }
    if &got.data[..] != &exp.payload[..] {
        return Some(format!(
            "payload differs (got {} bytes {}, expected {} bytes {})",
            got.data.len(),
            hex(&got.data[..got.data.len().min(16)]),
            exp.payload.len(),
            hex(&exp.payload[..exp.payload.len().min(16)])
        ));
    }
    None
}

fn field_of(d: &str) -> &str {
    d.split(' ').next().unwrap_or("?")
}

/// Feeds `pieces` to a clone of the deserializer and requires exactly `exp` at the end of the
/// last piece and nothing before/after.  Applies a decoded SetChunkSize to the deserializer.
fn deliver_lib(
    de: &ChunkDeserializer,
    pieces: &[&[u8]],
    exp: &Msg,
    steps: &mut u64,
) -> Result<ChunkDeserializer, (String, String)> {
    let mut d = de.clone();
    let last = pieces.len() - 1;
    for (i, p) in pieces.iter().enumerate() {
        *steps += 1;
        let r = guarded(|| d.get_next_message(p));
        let r = match r {
            Err(panic) => return Err(("panic".into(), format!("deserializer panicked: {}", panic))),
            Ok(Err(e)) => return Err(("error".into(), format!("deserializer returned error: {:?}", e))),
            Ok(Ok(r)) => r,
        };
        if i < last {
            if let Some(m) = r {
                return Err((
                    "early".into(),
                    format!("a message (type {}) was returned before all bytes were delivered", m.type_id),
                ));
            }
        } else {
            match r {
                None => return Err(("missing".into(), "no message returned after the whole packet was delivered".into())),
                Some(m) => {
                    if let Some(df) = diff_lib(&m, exp) {
                        return Err((format!("field-{}", field_of(&df)), df));
                    }
                    if exp.type_id == 1 && exp.payload.len() >= 4 {
                        let n = u32::from_be_bytes([exp.payload[0], exp.payload[1], exp.payload[2], exp.payload[3]]);
                        if let Err(e) = d.set_max_chunk_size(n as usize) {
                            return Err(("setchunk".into(), format!("deserializer refused chunk size {}: {:?}", n, e)));
                        }
                    }
                }
            }
        }
    }
    *steps += 1;
    match guarded(|| d.get_next_message(&[])) {
        Err(panic) => Err(("panic".into(), format!("deserializer panicked on empty input: {}", panic))),
        Ok(Err(e)) => Err(("error".into(), format!("deserializer returned error on empty input: {:?}", e))),
        Ok(Ok(Some(m))) => Err(("extra".into(), format!("an extra message (type {}) was returned", m.type_id))),
        Ok(Ok(None)) => Ok(d),
    }
}

impl CodecGraph {
    fn record_chunks(&self, sp: &SpecDecoder, from: usize, prev_dropped: bool) {
        let c = &self.counters;
        let chunks = &sp.chunks[from..];
        if chunks.is_empty() {
            return;
        }
        let f = &chunks[0];
        match f.fmt {
            0 => c.inc(K_FMT0),
            1 => c.inc(K_FMT1),
            2 => c.inc(K_FMT2),
            _ => c.inc(K_FMT3_NEW),
        }
        if f.ext_present {
            c.inc(K_EXT_FIRST);
        }
        if chunks.len() > 1 {
            c.inc(K_MULTI);
            if chunks[1..].iter().any(|x| x.ext_present) {
                c.inc(K_EXT_CONT);
            }
            if chunks[1..].iter().any(|x| x.restated_fmt0_continuation) {
                c.inc(K_RESTATED);
            }
        }
        if prev_dropped {
            c.inc(K_AFTER_DROP_FMT0);
        }
    }

    fn sig(&self, what: &str) -> String {
        format!("{:?}/{}", self.mode, what)
    }

    fn step_packet(
        &self,
        st: &St,
        exp: &Msg,
        force: bool,
        drop: bool,
        deliver: bool,
        is_setchunk: Option<(u32, u32)>,
        out: &mut StepOut<St>,
    ) {
        let mut ser = st.ser.clone();
        out.impl_steps += 1;
        let packet = match is_setchunk {
            Some((n, ts)) => guarded(|| ser.set_max_chunk_size(n, RtmpTimestamp::new(ts)).map_err(|e| format!("{:?}", e))),
            None => {
                let mp = MessagePayload {
                    timestamp: RtmpTimestamp::new(exp.ts),
                    type_id: exp.type_id,
                    message_stream_id: exp.msid,
                    data: Bytes::from(exp.payload.clone()),
                };
                guarded(|| ser.serialize(&mp, force, drop).map_err(|e| format!("{:?}", e)))
            }
        };
        let packet = match packet {
            Err(p) => {
                out.viol.push((self.sig("serializer-panic"), format!("serializer panicked: {}", p)));
                return;
            }
            Ok(Err(e)) => {
                out.viol.push((self.sig("serializer-refused-legal-message"), format!("serializer returned {}", e)));
                return;
            }
            Ok(Ok(p)) => p,
        };
        if packet.can_be_dropped != drop {
            out.viol.push((self.sig("droppable-flag"), format!("packet.can_be_dropped={} but requested {}", packet.can_be_dropped, drop)));
        }
        let bytes = &packet.bytes;
        if bytes.is_empty() {
            let what = if exp.payload.is_empty() { "empty-packet/zero-length-payload" } else { "empty-packet" };
            out.viol.push((self.sig(what), format!(
                "serialize() accepted a message (type {}, {} payload bytes) and returned a packet with no bytes: the message is absent from the wire",
                exp.type_id, exp.payload.len())));
            // the message is lost; keep exploring from the serializer's new state
            out.succ.push(St { ser, de: st.de.clone(), spec: st.spec.clone() });
            return;
        }
        if !deliver {
            self.counters.inc(K_DROPPED);
            out.succ.push(St { ser, de: st.de.clone(), spec: st.spec.clone() });
            return;
        }
        if exp.payload.is_empty() {
            self.counters.inc(K_ZERO);
        }

        // --- specification decoder (oracle for C07/C08; chunk layout + histogram for C01) ---
        let mut spec_next = None;
        let mut spec_broken = false;
        let mut layout: Option<Vec<(usize, usize)>> = None; // (chunk start, header len) within packet
        if let Some(ref sp0) = st.spec {
            let mut sp = sp0.clone();
            let from = sp.chunks.len();
            let base = sp.consumed;
            let r = sp.push(bytes);
            let judge = self.mode != Mode::C01;
            match r {
                Err(e) => {
                    if judge {
                        out.viol.push((self.sig("spec-decoder-rejects"), format!("specification decoder: {} ; packet {}", e, hex(bytes))));
                        return;
                    }
                    spec_broken = true;
                }
                Ok(msgs) => {
                    self.record_chunks(&sp, from, false);
                    layout = Some(sp.chunks[from..].iter().map(|c| (c.start - base, c.header_len)).collect());
                    if judge {
                        if msgs.len() != 1 || sp.pending() != 0 || sp.any_in_progress() {
                            out.viol.push((self.sig("spec-decoder-count"), format!(
                                "specification decoder produced {} messages, {} unparsed bytes, in_progress={} from one packet {}",
                                msgs.len(), sp.pending(), sp.any_in_progress(), hex(bytes))));
                            return;
                        }
                        if msgs[0] != *exp {
                            let g = &msgs[0];
                            let field = if g.type_id != exp.type_id { "type" } else if g.msid != exp.msid { "msid" } else if g.ts != exp.ts { "timestamp" } else { "payload" };
                            out.viol.push((self.sig(&format!("spec-decoder-mismatch/{}", field)), format!(
                                "specification decoder decoded (type {}, msid {}, ts {}, {} bytes) but (type {}, msid {}, ts {}, {} bytes) was serialized; packet {}",
                                g.type_id, g.msid, g.ts, g.payload.len(), exp.type_id, exp.msid, exp.ts, exp.payload.len(), hex(bytes))));
                            return;
                        }
                        // conformance predicates on this packet's chunks
                        for ci in sp.chunks[from..].iter() {
                            if let (Some(f), Some(x)) = (ci.field24, ci.ext_value) {
                                if f != 0xFF_FFFF || x < 0xFF_FFFF {
                                    out.viol.push((self.sig("timestamp-field-saturation"), format!("24-bit field {:#x} with extended {:#x}", f, x)));
                                    return;
                                }
                            }
                            if ci.payload_len as u64 > ci.chunk_size_in_force as u64 {
                                out.viol.push((self.sig("chunk-too-large"), format!("chunk carries {} bytes at announced size {}", ci.payload_len, ci.chunk_size_in_force)));
                                return;
                            }
                            if ci.csid < 2 || ci.csid > 65599 {
                                out.viol.push((self.sig("csid-range"), format!("csid {}", ci.csid)));
                                return;
                            }
                            let minimal = if ci.csid <= 63 { 1 } else if ci.csid <= 319 { 2 } else { 3 };
                            if ci.csid_form != minimal {
                                out.viol.push((self.sig("csid-not-minimally-encoded"), format!("csid {} written in its {}-byte form", ci.csid, ci.csid_form)));
                                return;
                            }
                        }
                    }
                }
            }
            // keep histories bounded
            sp.chunks.clear();
            spec_next = if spec_broken { None } else { Some(sp) };
        }

        // --- library deserializer (oracle for C01/C08) ---
        let mut succ_des: Vec<ChunkDeserializer> = Vec::new();
        if let Some(ref de) = st.de {
            // (a) whole
            match deliver_lib(de, &[&bytes[..]], exp, &mut out.impl_steps) {
                Ok(d) => succ_des.push(d),
                Err((cls, detail)) => {
                    out.viol.push((self.sig(&format!("roundtrip/whole/{}", cls)), format!("{} ; packet {}", detail, hex(bytes))));
                    return;
                }
            }
            if self.mode == Mode::C01 {
                // (b) one byte per call (packets above 2 KiB: seven bytes per call)
                let pieces: Vec<&[u8]> = bytes.chunks(if bytes.len() <= 2048 { 1 } else { 7 }).collect();
                self.counters.inc(K_BYTEWISE);
                match deliver_lib(de, &pieces, exp, &mut out.impl_steps) {
                    Ok(d) => succ_des.push(d),
                    Err((cls, detail)) => {
                        out.viol.push((self.sig(&format!("roundtrip/bytewise/{}", cls)), format!("{} ; packet {}", detail, hex(bytes))));
                        return;
                    }
                }
                // (c) every 2-way cut (short packets) or every cut near a chunk/header boundary
                let mut cuts: Vec<usize> = Vec::new();
                if bytes.len() <= 96 {
                    cuts.extend(1..bytes.len());
                } else {
                    let mut marks: Vec<usize> = Vec::new();
                    match layout {
                        Some(ref l) => {
                            // many-chunk packets: the first and last 8 chunks and every 16th in between
                            let n = l.len();
                            for (ci, (s, h)) in l.iter().enumerate() {
                                if n > 24 && !(ci < 8 || ci + 8 >= n || ci % 16 == 0) {
                                    continue;
                                }
                                marks.push(*s);
                                marks.push(*s + *h);
                            }
                        }
                        None => marks.extend((0..bytes.len()).step_by(64)),
                    }
                    marks.push(bytes.len());
                    for m in marks {
                        for o in -2i64..=2 {
                            let p = m as i64 + o;
                            if p >= 1 && (p as usize) < bytes.len() {
                                cuts.push(p as usize);
                            }
                        }
                    }
                    cuts.sort();
                    cuts.dedup();
                }
                self.counters.add(K_CUTS, cuts.len() as u64);
                for p in cuts {
                    match deliver_lib(de, &[&bytes[..p], &bytes[p..]], exp, &mut out.impl_steps) {
                        Ok(d) => succ_des.push(d),
                        Err((cls, detail)) => {
                            out.viol.push((self.sig(&format!("roundtrip/cut/{}", cls)), format!("cut at {} of {}: {} ; packet {}", p, bytes.len(), detail, hex(bytes))));
                            return;
                        }
                    }
                }
            }
        }

        if st.de.is_some() {
            // distinct successor deserializer states (normally exactly one)
            let mut seen: Vec<u128> = Vec::new();
            for d in succ_des {
                let mut v = Vec::new();
                d.verif_fingerprint(&mut v);
                let h = hash128(&v);
                if !seen.contains(&h) {
                    seen.push(h);
                    out.succ.push(St { ser: ser.clone(), de: Some(d), spec: spec_next.clone() });
                }
            }
        } else {
            out.succ.push(St { ser, de: None, spec: spec_next });
        }
    }
}

impl Graph for CodecGraph {
    type State = St;
    type Action = Act;

    fn actions(&self, _s: &St) -> Vec<Act> {
        let sl = &self.slice;
        let mut v = Vec::new();
        for &n in sl.setchunks.iter() {
            v.push(Act::SetChunk { n, ts: 0 });
        }
        for &ty in sl.types.iter() {
            for &msid in sl.msids.iter() {
                for &ts in sl.tss.iter() {
                    for &len in sl.lens.iter() {
                        for &force in sl.forces.iter() {
                            for &drop in sl.drops.iter() {
                                v.push(Act::Msg { ty, msid, ts, len, force, drop, deliver: true });
                                if self.mode == Mode::C08 && drop {
                                    v.push(Act::Msg { ty, msid, ts, len, force, drop, deliver: false });
                                }
                            }
                        }
                    }
                }
            }
        }
        v
    }

    fn step(&self, s: &St, a: &Act) -> StepOut<St> {
        let mut out = StepOut::new();
        match *a {
            Act::Msg { ty, msid, ts, len, force, drop, deliver } => {
                self.counters.inc(K_EDGES);
                let exp = Msg { type_id: ty, msid, ts, payload: payload_for(ty, msid, ts, len) };
                self.step_packet(s, &exp, force, drop, deliver, None, &mut out);
            }
            Act::SetChunk { n, ts } => {
                self.counters.inc(K_SETCHUNK);
                let exp = Msg { type_id: 1, msid: 0, ts, payload: n.to_be_bytes().to_vec() };
                self.step_packet(s, &exp, true, false, true, Some((n, ts)), &mut out);
            }
        }
        out
    }

    fn key(&self, s: &St) -> u128 {
        // in C01 mode the spec decoder only supplies chunk layouts and histogram data
        key_of(s, self.mode != Mode::C01)
    }

    fn describe(&self, a: &Act) -> Value {
        match *a {
            Act::Msg { ty, msid, ts, len, force, drop, deliver } => json!({
                "op": "serialize", "type_id": ty, "message_stream_id": msid, "timestamp": ts,
                "payload_len": len, "force_uncompressed": force, "can_be_dropped": drop, "delivered": deliver
            }),
            Act::SetChunk { n, ts } => json!({"op": "set_max_chunk_size", "size": n, "timestamp": ts}),
        }
    }
}

const TS6: [u32; 6] = [0, 1, 2, 0xFF_FFFF, 0x1FF_FFFE, 0xFFFF_FFFF];
const TS10: [u32; 10] = [0, 1, 2, 0xFF_FFFE, 0xFF_FFFF, 0x100_0000, 0x1FF_FFFE, 0x200_0000, 0xFFFF_FFFE, 0xFFFF_FFFF];

fn slices(mode: Mode, thorough: bool) -> Vec<Slice> {
    let both = vec![false, true];
    let mut v = Vec::new();
    // C07 is cheap (no receiver cut sweep): its quick tier runs the full slice set, its thorough tier more
    let c07_extra = thorough && mode == Mode::C07;
    let thorough = thorough || mode == Mode::C07;
    if !thorough {
        v.push(Slice {
            name: "one-chunk-stream/two-types/timestamps-around-2^24-and-2^32/chunk-size-2",
            types: vec![20, 17], msids: vec![0, 1], tss: if mode == Mode::C08 { TS6[..5].to_vec() } else { TS6.to_vec() }, lens: if mode == Mode::C07 { vec![0, 1, 3, 5] } else { vec![0, 1, 3] },
            forces: both.clone(), drops: both.clone(), setchunks: vec![], init_chunk: Some(2),
        });
        v.push(Slice {
            name: "chunk-size-changes/audio",
            types: vec![8], msids: vec![1], tss: vec![0, 1, 0xFF_FFFF], lens: vec![0, 1, 2, 129, 257],
            forces: both.clone(), drops: both.clone(), setchunks: vec![1, 2, 128, 4096], init_chunk: None,
        });
        v.push(Slice {
            name: "two-chunk-streams/audio-video/chunk-size-2",
            types: vec![8, 9], msids: if mode == Mode::C08 { vec![1] } else { vec![1, 0xFFFF_FFFF] }, tss: vec![0, 1, 2], lens: vec![1, 3],
            forces: vec![false], drops: both.clone(), setchunks: vec![], init_chunk: Some(2),
        });
    } else {
        let c08 = mode == Mode::C08;
        v.push(Slice {
            name: "one-chunk-stream/two-types/all-timestamps/chunk-size-2",
            types: vec![20, 17], msids: if c08 { vec![0, 1] } else { vec![0, 1, 0xFFFF_FFFF] }, tss: if c08 { TS6.to_vec() } else { TS10.to_vec() },
            lens: if c08 { vec![0, 1, 3] } else { vec![0, 1, 2, 3, 5] },
            forces: both.clone(), drops: both.clone(), setchunks: vec![], init_chunk: Some(2),
        });
        v.push(Slice {
            name: "chunk-size-changes/audio",
            types: vec![8], msids: vec![1], tss: if c08 { vec![0, 1, 0xFF_FFFF] } else { vec![0, 1, 0xFF_FFFF, 0x100_0000] },
            lens: if c08 { vec![0, 1, 2, 129, 257] } else { vec![0, 1, 2, 127, 128, 129, 257, 1025] },
            forces: both.clone(), drops: both.clone(), setchunks: if c08 { vec![1, 2, 128, 4096] } else { vec![1, 2, 128, 4096, 65536, 0x7FFF_FFFF] }, init_chunk: None,
        });
        if c08 {
            v.push(Slice {
                name: "two-chunk-streams/audio-video/two-message-streams/chunk-size-2",
                types: vec![8, 9], msids: vec![1, 0xFFFF_FFFF], tss: vec![0, 1, 2], lens: vec![1, 3],
                forces: vec![false], drops: both.clone(), setchunks: vec![], init_chunk: Some(2),
            });
        } else {
            v.push(Slice {
                name: "three-chunk-streams/audio-video-data/chunk-size-2",
                types: vec![8, 9, 18], msids: vec![1], tss: vec![0, 1, 2], lens: vec![1, 3],
                forces: vec![false], drops: both.clone(), setchunks: vec![], init_chunk: Some(2),
            });
        }
        v.push(Slice {
            name: "two-chunk-streams/control-and-command/two-message-streams",
            types: vec![4, 5, 20], msids: vec![0, 1], tss: vec![0, 1, 2], lens: vec![1, 3],
            forces: both.clone(), drops: vec![false], setchunks: vec![], init_chunk: Some(2),
        });
        v.push(Slice {
            name: "two-chunk-streams/extended-timestamps/multi-chunk",
            types: vec![9, 19, 18], msids: vec![1], tss: if c08 { vec![0, 0xFF_FFFF, 0x1FF_FFFE] } else { vec![0, 0xFF_FFFF, 0x100_0000, 0x1FF_FFFE, 0xFFFF_FFFF] }, lens: if c08 { vec![0, 4, 9] } else { vec![0, 1, 4, 9] },
            forces: both.clone(), drops: both.clone(), setchunks: vec![], init_chunk: Some(4),
        });
        v.push(Slice {
            name: "one-chunk-stream/chunk-size-128/lengths-around-multiples",
            types: vec![9], msids: vec![1], tss: vec![0, 5, 0xFF_FFFF], lens: vec![0, 127, 128, 129, 256, 257],
            forces: both.clone(), drops: both.clone(), setchunks: vec![], init_chunk: None,
        });
    }
    if mode != Mode::C08 {
        // chunks far larger than the exhaustive slices use (buffering thresholds such as 4 KiB / 64 KiB)
        v.push(Slice {
            name: "large-chunks/video/multi-chunk-messages",
            types: vec![9], msids: vec![1], tss: vec![0, 40], lens: if thorough && mode != Mode::C07 || c07_extra { vec![0, 4_097, 12_000, 150_000] } else { vec![0, 12_000, 150_000] },
            forces: vec![false], drops: vec![false], setchunks: if thorough && mode != Mode::C07 || c07_extra { vec![4_097, 5_000, 70_000, 0x7FFF_FFFF] } else { vec![4_097, 70_000, 0x7FFF_FFFF] }, init_chunk: None,
        });
    }
    if mode != Mode::C08 {
        // the Set Chunk Size announcement travels on the protocol control chunk stream itself: control messages
        // before and after a chunk size change share their header history with it
        v.push(Slice {
            name: "chunk-size-changes/protocol-control-messages-on-the-same-chunk-stream",
            types: vec![3, 5], msids: vec![0], tss: vec![0, 100, 350], lens: vec![4],
            forces: both.clone(), drops: vec![false], setchunks: vec![2, 128, 4096], init_chunk: None,
        });
    }
    if c07_extra {
        v.push(Slice {
            name: "four-chunk-streams/one-type-each/chunk-size-2",
            types: vec![4, 18, 9, 8], msids: vec![1], tss: vec![0, 1], lens: vec![3],
            forces: vec![false], drops: both.clone(), setchunks: vec![], init_chunk: Some(2),
        });
        v.push(Slice {
            name: "one-chunk-stream/five-protocol-control-types/chunk-size-3",
            types: vec![2, 3, 4, 5, 6], msids: vec![0, 1], tss: vec![0, 1, 2], lens: vec![4, 5],
            forces: both.clone(), drops: vec![false], setchunks: vec![], init_chunk: Some(3),
        });
        v.push(Slice {
            name: "one-chunk-stream/all-ten-timestamps/three-message-streams/chunk-size-1",
            types: vec![22, 15], msids: vec![0, 0x0102_0304, 0xFFFF_FFFF], tss: TS10.to_vec(), lens: vec![0, 1, 2],
            forces: both.clone(), drops: both.clone(), setchunks: vec![], init_chunk: Some(1),
        });
        v.push(Slice {
            name: "chunk-size-changes/video-and-data/extremes",
            types: vec![9, 18], msids: vec![1], tss: vec![0, 0xFF_FFFF, 0x100_0000], lens: vec![0, 1, 255, 256, 257, 65_537],
            forces: both.clone(), drops: vec![false], setchunks: vec![1, 255, 256, 65_536, 0xFF_FFFF, 0x100_0000, 0x7FFF_FFFF], init_chunk: None,
        });
    }
    v
}

fn init_state(mode: Mode, sl: &Slice, g: &CodecGraph) -> Result<St, String> {
    let st = St {
        ser: ChunkSerializer::new(),
        de: if mode == Mode::C07 { None } else { Some(ChunkDeserializer::new()) },
        spec: Some(SpecDecoder::new()),
    };
    match sl.init_chunk {
        None => Ok(st),
        Some(n) => {
            let out = g.step(&st, &Act::SetChunk { n, ts: 0 });
            if let Some((sig, d)) = out.viol.first() {
                return Err(format!("{}: {}", sig, d));
            }
            out.succ.into_iter().next().ok_or_else(|| "no successor for initial SetChunk".to_string())
        }
    }
}

pub fn run(run: &Run, mode: Mode) {
    let thorough = run.thorough();
    let mut total_states = 0u64;
    let mut total_trans = 0u64;
    let mut total_impl = 0u64;
    let mut slice_reports = Vec::new();
    let mut all_fix = true;
    let agg = Counters::new(&NAMES);
    for sl in slices(mode, thorough) {
        // debugging aid: VCHECK_SLICE=<substring> restricts the run to matching slices (never set by the registered commands)
        if let Ok(f) = std::env::var("VCHECK_SLICE") {
            if !sl.name.contains(&f) {
                continue;
            }
        }
        let g = CodecGraph { mode, slice: sl.clone(), counters: Counters::new(&NAMES) };
        let init = match init_state(mode, &sl, &g) {
            Ok(s) => s,
            Err(e) => {
                run.violation(&format!("{:?}/initial-set-chunk-size", mode), &e, json!({"slice": sl.name, "ops": [{"op": "set_max_chunk_size", "size": sl.init_chunk}]}));
                continue;
            }
        };
        let opts = BfsOptions { max_states: Some(if thorough { 30_000_000 } else { 3_000_000 }), ..Default::default() };
        let t_slice = std::time::Instant::now();
        let (stats, viols) = bfs(&g, vec![init], &opts);
        run.sample_paths(sl.name, &stats.sample_paths);
        let slice_wall = t_slice.elapsed().as_secs_f64();
        total_states += stats.states;
        total_trans += stats.transitions;
        total_impl += stats.impl_steps;
        if !stats.fixpoint {
            all_fix = false;
            if let Some(ref c) = stats.cap_hit {
                run.cap_hit(&format!("slice '{}': {}", sl.name, c));
            }
        }
        for v in viols {
            run.violation(&v.signature, &v.detail, json!({"slice": sl.name, "init_chunk_size": sl.init_chunk, "ops": v.path}));
        }
        for (i, _) in NAMES.iter().enumerate() {
            agg.add(i, g.counters.get(i));
        }
        slice_reports.push(json!({
            "slice": sl.name, "wall_s": slice_wall, "states": stats.states, "transitions": stats.transitions,
            "max_depth": stats.max_depth, "fixpoint": stats.fixpoint, "level_sizes": stats.level_sizes,
            "alphabet": {"types": sl.types, "msids": sl.msids, "timestamps": sl.tss, "payload_lens": sl.lens,
                          "force_uncompressed": sl.forces, "can_be_dropped": sl.drops, "set_chunk_sizes": sl.setchunks, "initial_chunk_size": sl.init_chunk},
            "actions_per_state": g.actions(&St{ser: ChunkSerializer::new(), de: None, spec: None}).len(),
        }));
    }
    // every message type id (the serializer picks the chunk stream by type): short scripted histories per type
    {
        let sl = Slice { name: "all-type-ids", types: vec![], msids: vec![1], tss: vec![0], lens: vec![3], forces: vec![false], drops: vec![false], setchunks: vec![], init_chunk: Some(2) };
        let g = CodecGraph { mode, slice: sl.clone(), counters: Counters::new(&NAMES) };
        let mut swept = 0u64;
        if let Ok(init) = init_state(mode, &sl, &g) {
            for t in 0..=255u8 {
                if t == 1 {
                    continue; // a Set Chunk Size body changes the receiver's framing: only sent through set_max_chunk_size
                }
                for partner in [t.wrapping_add(1), 20, 8, 4] {
                    if partner == 1 || partner == t {
                        continue;
                    }
                    let script: Vec<Act> = vec![
                        Act::Msg { ty: t, msid: 1, ts: 0, len: 3, force: false, drop: false, deliver: true },
                        Act::Msg { ty: partner, msid: 1, ts: 10, len: 3, force: false, drop: false, deliver: true },
                        Act::Msg { ty: t, msid: 1, ts: 20, len: 3, force: false, drop: false, deliver: true },
                        Act::Msg { ty: t, msid: 1, ts: 30, len: 3, force: false, drop: mode == Mode::C08, deliver: mode != Mode::C08 },
                        Act::Msg { ty: t, msid: 1, ts: 40, len: 5, force: false, drop: false, deliver: true },
                        Act::Msg { ty: partner, msid: 2, ts: 40, len: 5, force: false, drop: false, deliver: true },
                    ];
                    let mut cur = init.clone();
                    let mut done: Vec<Value> = Vec::new();
                    for a in script.iter() {
                        let o = g.step(&cur, a);
                        total_impl += o.impl_steps;
                        total_trans += 1;
                        done.push(g.describe(a));
                        if let Some((sig, d)) = o.viol.into_iter().next() {
                            run.violation(&sig, &d, json!({"slice": sl.name, "init_chunk_size": 2, "ops": done}));
                            break;
                        }
                        cur = match o.succ.into_iter().next() {
                            Some(x) => x,
                            None => break,
                        };
                    }
                    swept += 1;
                }
            }
        }
        // every message stream id 0..=70 and ids around byte boundaries, for the media, data and command types
        let mut swept_ids = 0u64;
        if let Ok(init) = init_state(mode, &sl, &g) {
            let ids: Vec<u32> = (0..=70u32).chain([255, 256, 257, 65_535, 65_536, 0xFF_FFFF, 0x100_0000, 0x7FFF_FFFF, 0x8000_0000, 0xFFFF_FFFE, 0xFFFF_FFFF]).collect();
            for &msid in ids.iter() {
                for ty in [8u8, 9, 18, 20] {
                    let script: Vec<Act> = vec![
                        Act::Msg { ty, msid, ts: 0, len: 3, force: false, drop: false, deliver: true },
                        Act::Msg { ty, msid, ts: 10, len: 3, force: false, drop: mode == Mode::C08, deliver: mode != Mode::C08 },
                        Act::Msg { ty, msid, ts: 20, len: 5, force: false, drop: false, deliver: true },
                        Act::Msg { ty, msid: msid ^ 1, ts: 20, len: 5, force: false, drop: false, deliver: true },
                        Act::Msg { ty, msid, ts: 30, len: 5, force: false, drop: false, deliver: true },
                    ];
                    let mut cur = init.clone();
                    let mut done: Vec<Value> = Vec::new();
                    for a in script.iter() {
                        let o = g.step(&cur, a);
                        total_impl += o.impl_steps;
                        total_trans += 1;
                        done.push(g.describe(a));
                        if let Some((sig, d)) = o.viol.into_iter().next() {
                            run.violation(&sig, &d, json!({"slice": "all-message-stream-ids", "init_chunk_size": 2, "ops": done}));
                            break;
                        }
                        cur = match o.succ.into_iter().next() {
                            Some(x) => x,
                            None => break,
                        };
                    }
                    swept_ids += 1;
                }
            }
        }
        // Abort messages that name the chunk stream of the neighbouring messages (a no-op: nothing is ever in flight
        // between two serialize calls); the named chunk stream then continues with compressed headers
        let mut aborts = 0u64;
        if let Ok(init) = init_state(mode, &sl, &g) {
            for (ty, csid) in [(9u8, 4u32), (8, 5), (18, 3), (20, 6), (3, 2)] {
                for abort_msid in [0u32, 1] {
                    let script: Vec<Act> = vec![
                        Act::Msg { ty, msid: 1, ts: 100, len: 3, force: false, drop: false, deliver: true },
                        Act::Msg { ty, msid: 1, ts: 110, len: 3, force: false, drop: false, deliver: true },
                        Act::Msg { ty: 2, msid: abort_msid, ts: csid, len: 4, force: false, drop: false, deliver: true },
                        Act::Msg { ty, msid: 1, ts: 120, len: 3, force: false, drop: false, deliver: true },
                        Act::Msg { ty, msid: 1, ts: 130, len: 3, force: false, drop: false, deliver: true },
                        Act::Msg { ty, msid: 1, ts: 140, len: 5, force: false, drop: false, deliver: true },
                    ];
                    let mut cur = init.clone();
                    let mut done: Vec<Value> = Vec::new();
                    for a in script.iter() {
                        let o = g.step(&cur, a);
                        total_impl += o.impl_steps;
                        total_trans += 1;
                        done.push(g.describe(a));
                        if let Some((sig, d)) = o.viol.into_iter().next() {
                            run.violation(&format!("{}/around-an-abort-message", sig), &d, json!({"slice": "abort-messages-naming-a-chunk-stream-in-use", "init_chunk_size": 2, "ops": done}));
                            break;
                        }
                        cur = match o.succ.into_iter().next() {
                            Some(x) => x,
                            None => break,
                        };
                    }
                    aborts += 1;
                }
            }
        }
        run.count("abort_message_scripts", aborts);
        run.count("message_stream_id_scripts", swept_ids);
        run.count("type_id_scripts", swept);
    }
    // out-of-graph bounded cases: maximum-size messages
    if mode != Mode::C08 {
        let t0 = std::time::Instant::now();
        big_messages(run, mode, thorough, &mut total_impl);
        run.set("max_size_message_cases_wall_s", json!(t0.elapsed().as_secs_f64()));
    }
    run.merge_hist(&agg.map());
    run.set("states", json!(total_states));
    run.set("transitions", json!(total_trans));
    run.set("traces_validated_against_impl", json!(total_impl));
    run.set("slices", json!(slice_reports));
    run.set("exhaustive", json!(all_fix));
    run.set("explanation", json!("every state is a live (ChunkSerializer, ChunkDeserializer, spec-decoder) triple at a message boundary; every transition calls the real serialize()/set_max_chunk_size() and feeds the returned packet to the receiver(s); a closed slice (fixpoint=true) covers every finite message sequence over its alphabet, of any length"));
    run.sample(json!({"ops": [
        {"op": "set_max_chunk_size", "size": 2},
        {"op": "serialize", "type_id": 20, "message_stream_id": 1, "timestamp": 16777215, "payload_len": 5, "force_uncompressed": false, "can_be_dropped": true},
        {"op": "serialize", "type_id": 17, "message_stream_id": 1, "timestamp": 33554430, "payload_len": 5, "force_uncompressed": false, "can_be_dropped": false}],
        "check": "packet decodes to exactly the message (whole / bytewise / every 2-way cut)"}));
    run.assume("payload content is a position-dependent pattern; chunk_io never branches on payload bytes except Set Chunk Size bodies");
    run.assume("128-bit state hashes (SipHash-1-3 x2) do not collide");
    run.assume("state fingerprints (feature verif) list every field of the codec structs (exhaustive destructuring)");
    if run.violation_count() == 0 {
        let mut need = vec!["first_chunk_fmt0", "first_chunk_fmt1", "first_chunk_fmt2", "first_chunk_fmt3_new_message",
            "extended_timestamp_on_first_chunk", "extended_timestamp_on_continuation_chunk", "multi_chunk_messages", "zero_length_messages", "set_chunk_size_edges"];
        if mode == Mode::C08 {
            need.push("packets_dropped");
        }
        if mode == Mode::C01 {
            need.push("two_way_cut_deliveries");
        }
        run.require_hist(&need);
    }
}

fn big_messages(run: &Run, mode: Mode, thorough: bool, impl_steps: &mut u64) {
    // single maximum-size messages; 16,777,216 bytes must be refused
    let sizes: Vec<(usize, u32)> = if thorough {
        vec![(16_777_215, 128), (16_777_215, 65_536), (16_777_215, 0x7FFF_FFFF), (65_537, 1), (9_000_000, 12_000_000), (8_388_609, 8_388_608), (16_777_215, 16_777_215)]
    } else {
        vec![(16_777_215, 65_536), (70_000, 128), (16_777_215, 0x7FFF_FFFF), (9_000_000, 12_000_000)]
    };
    for (len, cs) in sizes {
        let mut ser = ChunkSerializer::new();
        let mut de = ChunkDeserializer::new();
        let mut sp = SpecDecoder::new();
        let p0 = ser.set_max_chunk_size(cs, RtmpTimestamp::new(0)).expect("set chunk size");
        let m0 = de.get_next_message(&p0.bytes).expect("decode").expect("set chunk size message");
        assert_eq!(m0.type_id, 1);
        de.set_max_chunk_size(cs as usize).expect("de set");
        let _ = sp.push(&p0.bytes);
        let exp = Msg { type_id: 9, msid: 1, ts: 0xFF_FFFF, payload: pattern(len as u32, len) };
        let mp = MessagePayload { timestamp: RtmpTimestamp::new(exp.ts), type_id: 9, message_stream_id: 1, data: Bytes::from(exp.payload.clone()) };
        *impl_steps += 2;
        let ops = json!({"ops": [{"op": "set_max_chunk_size", "size": cs}, {"op": "serialize", "type_id": 9, "payload_len": len, "timestamp": 0xFF_FFFF}]});
        let packet = match guarded(|| ser.serialize(&mp, false, false)) {
            Ok(Ok(p)) => p,
            other => {
                run.violation(&format!("{:?}/max-size-message-refused", mode), &format!("{} byte message at chunk size {}: {:?}", len, cs, other.map(|r| r.map(|_| ()).map_err(|e| format!("{:?}", e)))), ops);
                continue;
            }
        };
        if mode == Mode::C01 {
            match guarded(|| de.get_next_message(&packet.bytes)) {
                Ok(Ok(Some(m))) => {
                    if let Some(d) = diff_lib(&m, &exp) {
                        run.violation("C01/roundtrip/max-size", &d, ops.clone());
                    }
                }
                other => run.violation("C01/roundtrip/max-size", &format!("{:?}", other.map(|r| r.map(|o| o.is_some()).map_err(|e| format!("{:?}", e)))), ops.clone()),
            }
        } else {
            match sp.push(&packet.bytes) {
                Ok(ms) if ms.len() == 1 && ms[0] == exp && sp.pending() == 0 => {}
                Ok(ms) => run.violation("C07/spec-decoder-mismatch/max-size", &format!("{} messages decoded", ms.len()), ops.clone()),
                Err(e) => run.violation("C07/spec-decoder-rejects/max-size", &e, ops.clone()),
            }
        }
        run.count("max_size_messages", 1);
    }
    // one byte too long must be refused
    let mut ser = ChunkSerializer::new();
    let mp = MessagePayload { timestamp: RtmpTimestamp::new(0), type_id: 9, message_stream_id: 1, data: Bytes::from(vec![0u8; 16_777_216]) };
    *impl_steps += 1;
    match guarded(|| ser.serialize(&mp, false, false)) {
        Ok(Err(_)) => run.count("oversize_refused", 1),
        Ok(Ok(p)) => {
            if mode == Mode::C07 {
                // a 16,777,216-byte message cannot be expressed in the 24-bit length field
                run.violation("C07/oversize-accepted", &format!("16,777,216-byte payload accepted, packet of {} bytes", p.bytes.len()), json!({"ops": [{"op": "serialize", "payload_len": 16_777_216}]}));
            }
        }
        Err(p) => run.violation(&format!("{:?}/serializer-panic/oversize", mode), &p, json!({"ops": [{"op": "serialize", "payload_len": 16_777_216}]})),
    }
}
