//! C09 — the server session follows the request/stream state machine in every history.
//! E1: BFS over (real ServerSession x reference protocol model R5s), alphabet = peer messages and
//! application calls; lockstep comparison on every transition.

use super::sess::*;
use crate::bfs::{bfs, BfsOptions, Graph, StepOut};
use crate::counters::Counters;
use crate::ev::Run;
use crate::refmodel::amf0::V;
use crate::refmodel::msg::M;
use crate::util::hash128;
use rml_rtmp::chunk_io::ChunkDeserializer;
use rml_rtmp::sessions::{PublishMode, ServerSessionEvent};
use serde_json::{json, Value};
use std::collections::{BTreeMap, BTreeSet};

/// Names chosen so that trimming, case folding, truncation at NUL, query-string stripping or percent
/// decoding anywhere between the request and the event/command that carries them would be visible.
pub const APP_A: &str = "A pp";
pub const KEY1: &str = "K1 ?a=b&c%20 ";
pub const KEY2: &str = " k\u{e9}\u{0}2";

#[derive(Clone, Debug, PartialEq, Eq, Hash)]
pub enum Req {
    Connect { app: String, tx: u64 },
    Publish { sid: u32, key: String },
    Play { sid: u32, key: String },
}

#[derive(Clone, Debug, PartialEq, Eq, Hash)]
pub enum SState {
    Created,
    Publishing(String),
    Playing(String),
    Completed,
    /// the statement does not define what the stream is after the last step
    Unknown,
}

#[derive(Clone, Debug, Default, PartialEq, Eq, Hash)]
pub struct ServerModel {
    pub connected: Option<String>,
    pub issued_req: BTreeSet<u32>,
    pub out: BTreeMap<u32, Req>,
    pub consumed: BTreeSet<u32>,
    pub issued_streams: BTreeSet<u32>,
    pub streams: BTreeMap<u32, SState>,
    /// ids whose accept was refused because their stream had gone: whether such an id is spent or still
    /// outstanding is not settled by the statement ("accepted or rejected exactly once" - it was neither)
    pub limbo: BTreeSet<u32>,
}

type Verdict = Result<(), (String, String)>;

fn v(sig: &str, detail: String) -> Verdict {
    Err((format!("C09/{}", sig), detail))
}

#[derive(Debug, Clone, PartialEq)]
enum Ev {
    ConnReq { app: String, id: u32 },
    PubReq { app: String, key: String, mode: PublishMode, id: u32 },
    PlayReq { app: String, key: String, sid: u32, id: u32 },
    PubFin { app: String, key: String },
    PlayFin { app: String, key: String },
    Audio { app: String, key: String, ts: u32, data: Vec<u8> },
    Video { app: String, key: String, ts: u32, data: Vec<u8> },
    Meta { app: String, key: String, md: rml_rtmp::sessions::StreamMetadata },
}

/// Projection onto the events the statement talks about.
fn project(events: &[ServerSessionEvent]) -> Vec<Ev> {
    let mut out = Vec::new();
    for e in events {
        match e {
            ServerSessionEvent::ConnectionRequested { request_id, app_name } => out.push(Ev::ConnReq { app: app_name.clone(), id: *request_id }),
            ServerSessionEvent::PublishStreamRequested { request_id, app_name, stream_key, mode } => {
                out.push(Ev::PubReq { app: app_name.clone(), key: stream_key.clone(), mode: mode.clone(), id: *request_id })
            }
            ServerSessionEvent::PlayStreamRequested { request_id, app_name, stream_key, stream_id, .. } => {
                out.push(Ev::PlayReq { app: app_name.clone(), key: stream_key.clone(), sid: *stream_id, id: *request_id })
            }
            ServerSessionEvent::PublishStreamFinished { app_name, stream_key } => out.push(Ev::PubFin { app: app_name.clone(), key: stream_key.clone() }),
            ServerSessionEvent::PlayStreamFinished { app_name, stream_key } => out.push(Ev::PlayFin { app: app_name.clone(), key: stream_key.clone() }),
            ServerSessionEvent::AudioDataReceived { app_name, stream_key, data, timestamp } => {
                out.push(Ev::Audio { app: app_name.clone(), key: stream_key.clone(), ts: timestamp.value, data: data.to_vec() })
            }
            ServerSessionEvent::VideoDataReceived { app_name, stream_key, data, timestamp } => {
                out.push(Ev::Video { app: app_name.clone(), key: stream_key.clone(), ts: timestamp.value, data: data.to_vec() })
            }
            ServerSessionEvent::StreamMetadataChanged { app_name, stream_key, metadata } => {
                out.push(Ev::Meta { app: app_name.clone(), key: stream_key.clone(), md: metadata.clone() })
            }
            _ => {}
        }
    }
    out
}

fn has_error_reply(outs: &[Out]) -> bool {
    outs.iter().any(|o| matches!(&o.m, M::Command { name, .. } if name == "_error"))
}

fn mode_of(s: &str) -> Option<PublishMode> {
    match s.to_lowercase().as_str() {
        "live" => Some(PublishMode::Live),
        "record" => Some(PublishMode::Record),
        "append" => Some(PublishMode::Append),
        _ => None,
    }
}

impl ServerModel {
    /// Compares one observed step with what the statement prescribes and advances the model.
    pub fn check(&mut self, a: &SAct, o: &Obs<ServerSessionEvent>, outs: &[Out], fp_before: &[u8], fp_after: &[u8]) -> Verdict {
        // further arguments behind the ones a request consists of do not change what it requests
        if let SAct::PublishExtra { sid, key, mode } = a {
            return self.check(&SAct::Publish { sid: *sid, key: key.clone(), mode: mode.clone() }, o, outs, fp_before, fp_after);
        }
        if let SAct::PlayExtra { sid, key } = a {
            return self.check(&SAct::Play { sid: *sid, key: key.clone() }, o, outs, fp_before, fp_after);
        }
        if let Some(p) = &o.panicked {
            return v("panic", format!("{:?} panicked: {}", a, p));
        }
        let evs = project(&o.events);
        let none = |what: &str| -> Verdict {
            if evs.is_empty() {
                Ok(())
            } else {
                v(&format!("unexpected-event/{}", what), format!("{:?} must raise no request/finished/media event here, got {:?}", a, evs))
            }
        };
        match a {
            SAct::Connect { tx, app } => {
                let want_app = app.strip_suffix('/').unwrap_or(app).to_string();
                match evs.as_slice() {
                    [Ev::ConnReq { app: got, id }] => {
                        if *got != want_app && got != app {
                            return v("connect/app-name", format!("connection requested for app {:?}, peer asked for {:?}", got, app));
                        }
                        if self.issued_req.contains(id) {
                            return v("request-id-not-fresh", format!("connection request id {} was issued before", id));
                        }
                        self.issued_req.insert(*id);
                        self.out.insert(*id, Req::Connect { app: got.clone(), tx: tx.to_bits() });
                        Ok(())
                    }
                    [] if self.connected.is_some() || self.out.values().any(|r| matches!(r, Req::Connect { .. })) => {
                        // a further connect while connected / while one is unanswered: the statement does
                        // not say it has to be surfaced again
                        Ok(())
                    }
                    other => v("connect/not-surfaced", format!("well-formed connect must raise exactly one ConnectionRequested, got {:?} (err {:?})", other, o.err)),
                }
            }
            SAct::ConnectMalformed { .. } => {
                if evs.iter().any(|e| matches!(e, Ev::ConnReq { .. })) {
                    return v("connect/malformed-surfaced", format!("{:?} raised {:?}", a, evs));
                }
                none("malformed-connect")?;
                if o.err.is_some() && fp_before != fp_after {
                    return v("refusal-with-side-effects/malformed-connect", format!("{:?} failed but changed the session state", a));
                }
                Ok(())
            }
            SAct::CreateStream { tx } => {
                none("createStream")?;
                let results: Vec<&Out> = outs.iter().filter(|x| matches!(&x.m, M::Command { name, .. } if name == "_result")).collect();
                if results.is_empty() && self.connected.is_none() {
                    // before a connection was accepted the statement does not require streams to be created
                    return Ok(());
                }
                if results.len() != 1 {
                    return v("createStream/no-result", format!("createStream must be answered with exactly one _result, got {:?} (err {:?})", outs, o.err));
                }
                if let M::Command { tx: got_tx, args, .. } = &results[0].m {
                    if *got_tx != tx.to_bits() {
                        return v("createStream/transaction-id", format!("_result carries transaction id {} instead of {}", f64::from_bits(*got_tx), tx));
                    }
                    let sid = match args.first() {
                        Some(V::Num(b)) => f64::from_bits(*b),
                        other => return v("createStream/no-stream-id", format!("_result carries {:?} instead of a stream number", other)),
                    };
                    if sid.fract() != 0.0 || sid < 0.0 || sid > u32::MAX as f64 {
                        return v("createStream/no-stream-id", format!("stream number {}", sid));
                    }
                    let sid = sid as u32;
                    if self.issued_streams.contains(&sid) {
                        return v("createStream/stream-id-not-fresh", format!("stream id {} was issued before", sid));
                    }
                    self.issued_streams.insert(sid);
                    self.streams.insert(sid, SState::Created);
                }
                Ok(())
            }
            SAct::Publish { sid, key, mode } => {
                let valid_mode = mode_of(mode);
                match (&self.connected, valid_mode) {
                    (Some(app), Some(md)) => match evs.as_slice() {
                        [] => Ok(()), // statement: surfaced *only* after connect; not surfacing is not forbidden
                        [Ev::PubReq { app: ga, key: gk, mode: gm, id }] => {
                            if ga != app || gk != key || *gm != md {
                                return v("publish/request-tags", format!("publish request surfaced as app {:?} key {:?} mode {:?}; expected {:?} {:?} {:?}", ga, gk, gm, app, key, md));
                            }
                            if self.issued_req.contains(id) {
                                return v("request-id-not-fresh", format!("publish request id {} was issued before", id));
                            }
                            self.issued_req.insert(*id);
                            self.out.insert(*id, Req::Publish { sid: *sid, key: key.clone() });
                            Ok(())
                        }
                        other => v("publish/unexpected-events", format!("{:?}", other)),
                    },
                    (Some(_), None) => none("publish-with-invalid-mode"),
                    (None, _) => {
                        none("publish-before-connect")?;
                        if !has_error_reply(outs) {
                            return v("publish-before-connect/no-error-reply", format!("publish before an accepted connection must be answered with an error; got {:?} (err {:?})", outs, o.err));
                        }
                        Ok(())
                    }
                }
            }
            SAct::PublishMalformed { sid, .. } | SAct::PlayMalformed { sid, .. } => {
                // The statement does not say what an incomplete argument list must lead to.  Refusing it (today's
                // behaviour) is fine; so is a tolerant session that still surfaces a request - but then only after an
                // accepted connection, under the accepted application name, with a fresh id, and the request is
                // outstanding like any other.
                match (&self.connected, evs.as_slice()) {
                    (_, []) => Ok(()),
                    (Some(app), [Ev::PubReq { app: ga, key: gk, id, .. }]) | (Some(app), [Ev::PlayReq { app: ga, key: gk, id, .. }]) => {
                        if ga != app {
                            return v("malformed-request/app-name", format!("{:?} surfaced under app {:?}, accepted app is {:?}", a, ga, app));
                        }
                        if self.issued_req.contains(id) {
                            return v("request-id-not-fresh", format!("request id {} was issued before", id));
                        }
                        self.issued_req.insert(*id);
                        let req = if matches!(evs[0], Ev::PubReq { .. }) { Req::Publish { sid: *sid, key: gk.clone() } } else { Req::Play { sid: *sid, key: gk.clone() } };
                        self.out.insert(*id, req);
                        Ok(())
                    }
                    (None, other) => v("unexpected-event/request-before-connect", format!("{:?} raised {:?} before any connection was accepted", a, other)),
                    (_, other) => v("unexpected-event/malformed-request", format!("{:?} raised {:?}", a, other)),
                }
            }
            SAct::PublishExtra { .. } | SAct::PlayExtra { .. } => unreachable!("mapped to Publish / Play above"),
            SAct::Play { sid, key } => match &self.connected {
                Some(app) => match evs.as_slice() {
                    [] => Ok(()),
                    [Ev::PlayReq { app: ga, key: gk, sid: gs, id }] => {
                        if ga != app || gk != key || gs != sid {
                            return v("play/request-tags", format!("play request surfaced as app {:?} key {:?} stream {}; expected {:?} {:?} {}", ga, gk, gs, app, key, sid));
                        }
                        if self.issued_req.contains(id) {
                            return v("request-id-not-fresh", format!("play request id {} was issued before", id));
                        }
                        self.issued_req.insert(*id);
                        self.out.insert(*id, Req::Play { sid: *sid, key: key.clone() });
                        Ok(())
                    }
                    other => v("play/unexpected-events", format!("{:?}", other)),
                },
                None => {
                    none("play-before-connect")?;
                    if !has_error_reply(outs) {
                        return v("play-before-connect/no-error-reply", format!("play before an accepted connection must be answered with an error; got {:?}", outs));
                    }
                    Ok(())
                }
            },
            SAct::CloseStream { sid } | SAct::DeleteStream { sid } => {
                let delete = matches!(a, SAct::DeleteStream { .. });
                let app = match &self.connected {
                    None => {
                        // before any accepted connection nothing can be publishing or playing
                        none("close-before-connect")?;
                        if self.streams.contains_key(sid) {
                            self.streams.insert(*sid, SState::Unknown);
                        }
                        return Ok(());
                    }
                    Some(a) => a.clone(),
                };
                let st = self.streams.get(sid).cloned();
                match st {
                    Some(SState::Publishing(k)) => {
                        if evs != vec![Ev::PubFin { app: app.clone(), key: k.clone() }] {
                            return v("close/publish-finished-missing", format!("{:?} of a publishing stream must raise exactly one PublishStreamFinished{{{:?},{:?}}}, got {:?}", a, app, k, evs));
                        }
                    }
                    Some(SState::Playing(k)) => {
                        if evs != vec![Ev::PlayFin { app: app.clone(), key: k.clone() }] {
                            return v("close/play-finished-missing", format!("{:?} of a playing stream must raise exactly one PlayStreamFinished{{{:?},{:?}}}, got {:?}", a, app, k, evs));
                        }
                    }
                    Some(SState::Unknown) => {
                        if evs.len() > 1 {
                            return v("close/too-many-events", format!("{:?}", evs));
                        }
                    }
                    _ => none("close-of-idle-stream")?,
                }
                if delete {
                    self.streams.remove(sid);
                } else if self.streams.contains_key(sid) {
                    self.streams.insert(*sid, SState::Created);
                }
                Ok(())
            }
            SAct::CloseMalformed { .. } => none("malformed-close"),
            SAct::Audio { sid, ts, len } | SAct::Video { sid, ts, len } => {
                let is_audio = matches!(a, SAct::Audio { .. });
                let data = media_payload(*ts ^ if is_audio { 8 } else { 9 }, *len);
                match (self.connected.clone(), self.streams.get(sid).cloned()) {
                    (Some(app), Some(SState::Publishing(k))) => {
                        let want = if is_audio { Ev::Audio { app, key: k, ts: *ts, data } } else { Ev::Video { app, key: k, ts: *ts, data } };
                        if evs != vec![want.clone()] {
                            return v("media/event-missing-or-mistagged", format!("media on a publishing stream must raise exactly {:?} (payload elided), got {} events: {:?}", short_ev(&want), evs.len(), evs.iter().map(short_ev).collect::<Vec<_>>()));
                        }
                        Ok(())
                    }
                    (_, Some(SState::Unknown)) => Ok(()),
                    _ => none("media-on-non-publishing-stream"),
                }
            }
            SAct::Meta { sid, variant } => match (self.connected.clone(), self.streams.get(sid).cloned()) {
                (Some(app), Some(SState::Publishing(k))) => {
                    let want = Ev::Meta { app, key: k, md: metadata_sample(*variant).0 };
                    if evs != vec![want.clone()] {
                        return v("metadata/event-missing-or-mistagged", format!("expected {:?}, got {:?}", want, evs));
                    }
                    Ok(())
                }
                (_, Some(SState::Unknown)) => Ok(()),
                _ => none("metadata-on-non-publishing-stream"),
            },
            SAct::MetaMalformed { sid, shape } => {
                // shape 3 (onMetaData followed by a non-object) is a metadata message with no usable fields
                if *shape == 3 {
                    if let (Some(_), Some(SState::Publishing(_))) = (&self.connected, self.streams.get(sid)) {
                        return Ok(());
                    }
                }
                if evs.iter().any(|e| !matches!(e, Ev::Meta { .. })) {
                    return v("unexpected-event/malformed-metadata", format!("{:?}", evs));
                }
                if !matches!(self.streams.get(sid), Some(SState::Publishing(_))) {
                    none("malformed-metadata")?;
                }
                Ok(())
            }
            SAct::Ping { ts } => {
                none("ping")?;
                let pongs: Vec<&Out> = outs.iter().filter(|x| matches!(&x.m, M::UserControl { code: 7, .. })).collect();
                if pongs.len() != 1 {
                    return v("ping/not-answered-once", format!("ping request must be answered with exactly one ping response, got {:?} (err {:?})", outs, o.err));
                }
                if let M::UserControl { timestamp, .. } = &pongs[0].m {
                    if *timestamp != Some(*ts) {
                        return v("ping/timestamp", format!("ping response carries {:?} instead of {}", timestamp, ts));
                    }
                }
                Ok(())
            }
            SAct::PingOnStream { ts, .. } => {
                return self.check(&SAct::Ping { ts: *ts }, o, outs, fp_before, fp_after);
            }
            SAct::PingBurst { ts, n } => {
                none("ping")?;
                let got: Vec<Option<u32>> = outs.iter().filter_map(|x| match &x.m { M::UserControl { code: 7, timestamp, .. } => Some(*timestamp), _ => None }).collect();
                let want: Vec<Option<u32>> = (0..*n).map(|k| Some(ts.wrapping_add(k as u32))).collect();
                if got != want {
                    return v("ping/burst-not-answered-one-by-one", format!("{} ping requests in one input call must be answered with {} ping responses carrying {:?}, got {:?} (err {:?})", n, n, want, got, o.err));
                }
                Ok(())
            }
            SAct::UnknownCommand | SAct::Raw { .. } => none("unknown-command"),
            SAct::Accept { id } => {
                match self.out.remove(id) {
                    None if self.limbo.contains(id) => {
                        // refused once because its stream had gone: refused again, or (the stream cannot come back) any
                        // other consistent answer without events
                        none("accept-after-refused-accept")
                    }
                    None => {
                        if o.ok() {
                            return v("accept/stale-or-unknown-id-accepted", format!("accept_request({}) succeeded although that id is not outstanding (consumed before: {})", id, self.consumed.contains(id)));
                        }
                        if fp_before != fp_after {
                            return v("refusal-with-side-effects/accept", format!("accept_request({}) was refused but changed the session state", id));
                        }
                        none("refused-accept")
                    }
                    Some(req) => {
                        self.consumed.insert(*id);
                        none("accept")?;
                        match req {
                            Req::Connect { app, tx } => {
                                if !o.ok() {
                                    return v("accept/outstanding-connect-refused", format!("accept_request({}) of an outstanding connection request failed: {:?}", id, o.err));
                                }
                                let ok = outs.iter().any(|x| matches!(&x.m, M::Command { name, tx: t, .. } if name == "_result" && *t == tx));
                                if !ok {
                                    return v("accept/connect-result-missing", format!("no _result under transaction id {} in {:?}", f64::from_bits(tx), outs));
                                }
                                self.connected = Some(app);
                                Ok(())
                            }
                            Req::Publish { sid, key } => self.accept_stream(*id, sid, SState::Publishing(key), o),
                            Req::Play { sid, key } => self.accept_stream(*id, sid, SState::Playing(key), o),
                        }
                    }
                }
            }
            SAct::Reject { id } => match self.out.remove(id) {
                None if self.limbo.contains(id) => {
                    // still outstanding (rejected now, once) or already spent (refused): both fit the statement
                    none("reject-after-refused-accept")?;
                    if o.ok() {
                        self.limbo.remove(id);
                        if !has_error_reply(outs) {
                            return v("reject/no-error-reply", format!("{:?}", outs));
                        }
                    }
                    Ok(())
                }
                None => {
                    if o.ok() {
                        return v("reject/stale-or-unknown-id-accepted", format!("reject_request({}) succeeded although that id is not outstanding", id));
                    }
                    if fp_before != fp_after {
                        return v("refusal-with-side-effects/reject", format!("reject_request({}) was refused but changed the session state", id));
                    }
                    none("refused-reject")
                }
                Some(_) => {
                    self.consumed.insert(*id);
                    none("reject")?;
                    if !o.ok() {
                        return v("reject/outstanding-request-refused", format!("reject_request({}) failed: {:?}", id, o.err));
                    }
                    if !has_error_reply(outs) {
                        return v("reject/no-error-reply", format!("{:?}", outs));
                    }
                    Ok(())
                }
            },
            SAct::FinishPlaying { sid } => match self.streams.get(sid).cloned() {
                Some(SState::Playing(_)) => {
                    none("finish-playing")?;
                    if !o.ok() {
                        return v("finish-playing/refused", format!("{:?}", o.err));
                    }
                    self.streams.insert(*sid, SState::Completed);
                    Ok(())
                }
                Some(SState::Unknown) => Ok(()),
                _ => {
                    none("finish-playing")?;
                    if o.ok() {
                        return v("finish-playing/accepted-on-non-playing-stream", format!("finish_playing({}) succeeded on a stream that is not playing", sid));
                    }
                    if fp_before != fp_after {
                        return v("refusal-with-side-effects/finish-playing", format!("finish_playing({}) was refused but changed the session state", sid));
                    }
                    Ok(())
                }
            },
            SAct::SendAudio { .. } | SAct::SendVideo { .. } | SAct::SendMeta { .. } | SAct::SendPing | SAct::Clock { .. } => none("send"),
        }
    }

    fn accept_stream(&mut self, id: u32, sid: u32, new: SState, o: &Obs<ServerSessionEvent>) -> Verdict {
        match self.streams.get(&sid).cloned() {
            Some(SState::Unknown) => {
                if o.ok() {
                    self.streams.insert(sid, new);
                } else {
                    self.streams.remove(&sid);
                }
                Ok(())
            }
            Some(_) => {
                if !o.ok() {
                    return v("accept/outstanding-stream-request-refused", format!("accept_request({}) for existing stream {} failed: {:?}", id, sid, o.err));
                }
                self.streams.insert(sid, new);
                Ok(())
            }
            None => {
                // the stream was deleted meanwhile or never created: Ok or Err; after an Err the id may be spent or
                // still outstanding
                if o.ok() {
                    self.streams.insert(sid, SState::Unknown);
                } else {
                    self.limbo.insert(id);
                }
                Ok(())
            }
        }
    }

    pub fn fingerprint(&self, out: &mut Vec<u8>) {
        out.extend_from_slice(format!("{:?}", self).as_bytes());
    }
}

fn short_ev(e: &Ev) -> String {
    match e {
        Ev::Audio { app, key, ts, data } => format!("Audio{{{:?},{:?},ts {},{} bytes}}", app, key, ts, data.len()),
        Ev::Video { app, key, ts, data } => format!("Video{{{:?},{:?},ts {},{} bytes}}", app, key, ts, data.len()),
        other => format!("{:?}", other),
    }
}

// ---------------------------------------------------------------------------------------------

#[derive(Clone)]
pub struct St {
    pub h: ServerH,
    pub peer_de: ChunkDeserializer,
    pub model: ServerModel,
}

pub struct G {
    pub thorough: bool,
    pub c: Counters,
    pub max_streams: usize,
    pub max_outstanding: usize,
    pub extended: bool,
}

const NAMES: [&str; 12] = [
    "requests_surfaced", "accepts_ok", "accepts_refused", "rejects_ok", "rejects_refused", "media_events", "finished_events",
    "error_replies_before_connect", "streams_created", "pings", "metadata_events", "finish_playing_ok",
];

pub fn actions_for(m: &ServerModel, max_streams: usize, max_outstanding: usize, extended: bool) -> Vec<SAct> {
    let mut acts = Vec::new();
    let mut sids: Vec<u32> = m.issued_streams.iter().cloned().collect();
    let live_sids: Vec<u32> = sids.clone();
    sids.push(0);
    sids.push(99);
    if m.out.len() < max_outstanding {
        acts.push(SAct::Connect { tx: 1.0, app: APP_A.into() });
        if extended {
            acts.push(SAct::Connect { tx: 5.0, app: "b/".into() });
        }
        for &sid in sids.iter() {
            acts.push(SAct::Publish { sid, key: KEY1.into(), mode: "live".into() });
            acts.push(SAct::Play { sid, key: KEY2.into() });
            if extended && sid != 99 {
                acts.push(SAct::Publish { sid, key: KEY2.into(), mode: "Record".into() });
            }
        }
    }
    acts.push(SAct::Publish { sid: *live_sids.first().unwrap_or(&0), key: KEY1.into(), mode: "bogus".into() });
    if m.out.len() < max_outstanding {
        acts.push(SAct::PublishExtra { sid: *live_sids.first().unwrap_or(&0), key: KEY1.into(), mode: "live".into() });
        acts.push(SAct::PlayExtra { sid: *live_sids.last().unwrap_or(&0), key: KEY2.into() });
    }
    acts.push(SAct::ConnectMalformed { shape: 0 });
    if extended {
        acts.push(SAct::ConnectMalformed { shape: 1 });
        acts.push(SAct::ConnectMalformed { shape: 2 });
        acts.push(SAct::ConnectMalformed { shape: 3 });
    }
    if m.issued_streams.len() < max_streams {
        acts.push(SAct::CreateStream { tx: 2.0 + m.issued_streams.len() as f64 * 5.0 });
    }
    for &sid in sids.iter() {
        acts.push(SAct::CloseStream { sid });
        acts.push(SAct::DeleteStream { sid });
        acts.push(SAct::Audio { sid, ts: 7, len: 3 });
        acts.push(SAct::Video { sid, ts: 0xFFFF_FFF0, len: 0 });
        acts.push(SAct::Meta { sid, variant: 5 });
        acts.push(SAct::FinishPlaying { sid });
    }
    let s0 = *live_sids.first().unwrap_or(&0);
    for shape in 0..4 {
        acts.push(SAct::PublishMalformed { sid: s0, shape });
    }
    for shape in 0..2 {
        acts.push(SAct::PlayMalformed { sid: s0, shape });
        acts.push(SAct::CloseMalformed { delete: false, shape });
        acts.push(SAct::CloseMalformed { delete: true, shape });
    }
    for shape in 0..5 {
        acts.push(SAct::MetaMalformed { sid: s0, shape });
    }
    acts.push(SAct::Ping { ts: 0x0102_0304 });
    acts.push(SAct::PingBurst { ts: 0xFFFF_FFFF, n: 3 });
    acts.push(SAct::PingOnStream { msid: *live_sids.last().unwrap_or(&7), ts: 77 });
    acts.push(SAct::UnknownCommand);
    // application calls: every outstanding id, one consumed id, one never issued
    let mut ids: Vec<u32> = m.out.keys().cloned().collect();
    if let Some(c) = m.consumed.iter().next() {
        ids.push(*c);
    }
    ids.push(77);
    for id in ids {
        acts.push(SAct::Accept { id });
        acts.push(SAct::Reject { id });
    }
    acts
}

impl Graph for G {
    type State = St;
    type Action = SAct;

    fn actions(&self, s: &St) -> Vec<SAct> {
        actions_for(&s.model, self.max_streams, self.max_outstanding, self.extended)
    }

    fn step(&self, s: &St, a: &SAct) -> StepOut<St> {
        let mut out = StepOut::new();
        let mut n = s.clone();
        let fp_before = n.h.fp_logic();
        let o = n.h.step(a);
        out.impl_steps += 1;
        let fp_after = n.h.fp_logic();
        let outs = match decode_with_lib(&mut n.peer_de, &o.packets) {
            Ok(x) => x,
            Err(e) => {
                out.viol.push(("C09/undecodable-output".into(), format!("after {:?}: {}", a, e)));
                return out;
            }
        };
        // coverage
        let c = &self.c;
        for e in o.events.iter() {
            match e {
                ServerSessionEvent::ConnectionRequested { .. } | ServerSessionEvent::PublishStreamRequested { .. } | ServerSessionEvent::PlayStreamRequested { .. } => c.inc(0),
                ServerSessionEvent::AudioDataReceived { .. } | ServerSessionEvent::VideoDataReceived { .. } => c.inc(5),
                ServerSessionEvent::PublishStreamFinished { .. } | ServerSessionEvent::PlayStreamFinished { .. } => c.inc(6),
                ServerSessionEvent::StreamMetadataChanged { .. } => c.inc(10),
                _ => {}
            }
        }
        match a {
            SAct::Accept { .. } => c.inc(if o.ok() { 1 } else { 2 }),
            SAct::Reject { .. } => c.inc(if o.ok() { 3 } else { 4 }),
            SAct::Publish { .. } | SAct::Play { .. } if s.model.connected.is_none() => c.inc(7),
            SAct::CreateStream { .. } => c.inc(8),
            SAct::Ping { .. } => c.inc(9),
            SAct::FinishPlaying { .. } if o.ok() => c.inc(11),
            _ => {}
        }
        match n.model.check(a, &o, &outs, &fp_before, &fp_after) {
            Ok(()) => out.succ.push(n),
            Err((sig, detail)) => out.viol.push((sig, detail)),
        }
        out
    }

    fn key(&self, s: &St) -> u128 {
        // logic part of the session + model; the codec part cannot influence decoded observations
        // while the codec is transparent (C01/C07/C15) - cross-checked by the no-merge pass
        let mut v = s.h.fp_logic();
        v.push(0xCC);
        s.model.fingerprint(&mut v);
        hash128(&v)
    }

    fn describe(&self, a: &SAct) -> Value {
        describe_sact(a)
    }
}

pub fn fresh_state() -> St {
    let (h, o) = ServerH::new(default_server_cfg(), 5_000).expect("server session");
    let mut peer_de = ChunkDeserializer::new();
    decode_with_lib(&mut peer_de, &o.packets).expect("initial server packets decode");
    St { h, peer_de, model: ServerModel::default() }
}

/// Drives a state through a fixed prefix (must not violate anything).
pub fn drive(g: &G, st: St, prefix: &[SAct]) -> Result<St, (String, String)> {
    let mut cur = st;
    for a in prefix {
        let o = g.step(&cur, a);
        if let Some(vv) = o.viol.into_iter().next() {
            return Err(vv);
        }
        cur = o.succ.into_iter().next().expect("successor");
    }
    Ok(cur)
}

pub fn run(run: &Run) {
    let thorough = run.thorough();
    let agg = Counters::new(&NAMES);
    let mut reports = Vec::new();
    let (mut ts, mut tt, mut ti) = (0u64, 0u64, 0u64);
    // (name, prefix, depth, extended alphabet)
    let connect = vec![SAct::Connect { tx: 1.0, app: APP_A.into() }, SAct::Accept { id: 0 }];
    let mut one_stream = connect.clone();
    one_stream.push(SAct::CreateStream { tx: 2.0 });
    let mut two_streams = one_stream.clone();
    two_streams.push(SAct::CreateStream { tx: 7.0 });
    let mut publishing = one_stream.clone();
    publishing.extend(vec![SAct::Publish { sid: 1, key: KEY1.into(), mode: "live".into() }, SAct::Accept { id: 1 }]);
    let mut playing_and_publishing = two_streams.clone();
    playing_and_publishing.extend(vec![
        SAct::Publish { sid: 1, key: KEY1.into(), mode: "live".into() }, SAct::Accept { id: 1 },
        SAct::Play { sid: 2, key: KEY2.into() }, SAct::Accept { id: 2 },
    ]);
    let mut after_delete = two_streams.clone();
    after_delete.push(SAct::DeleteStream { sid: 1 });
    let plans: Vec<(&str, Vec<SAct>, usize, bool)> = if thorough {
        vec![
            ("from a fresh session", vec![], 10, false),
            ("from a fresh session, extended alphabet", vec![], 8, true),
            ("from connected", connect.clone(), 9, false),
            ("from connected with one stream", one_stream.clone(), 9, false),
            ("from connected with two streams", two_streams.clone(), 7, true),
            ("from publishing on stream 1", publishing.clone(), 9, false),
            ("from publishing on 1 and playing on 2", playing_and_publishing.clone(), 7, true),
            ("from two streams created and the first deleted", after_delete.clone(), 8, false),
        ]
    } else {
        vec![
            ("from a fresh session", vec![], 8, false),
            ("from a fresh session, extended alphabet", vec![], 6, true),
            ("from connected with one stream", one_stream.clone(), 7, false),
            ("from connected with two streams", two_streams.clone(), 5, true),
            ("from publishing on stream 1", publishing.clone(), 7, false),
            ("from publishing on 1 and playing on 2", playing_and_publishing.clone(), 6, true),
            ("from two streams created and the first deleted", after_delete.clone(), 6, false),
        ]
    };
    for (name, prefix, depth, extended) in plans {
        let g = G { thorough, c: Counters::new(&NAMES), max_streams: if name.contains("deleted") { 4 } else if thorough { 3 } else { 2 }, max_outstanding: if thorough { 3 } else { 2 }, extended };
        let init = match drive(&g, fresh_state(), &prefix) {
            Ok(s) => s,
            Err((sig, d)) => {
                run.violation(&sig, &d, json!({"plan": name, "ops": prefix.iter().map(describe_sact).collect::<Vec<_>>()}));
                continue;
            }
        };
        let opts = BfsOptions { max_depth: Some(depth), max_states: Some(if thorough { 40_000_000 } else { 4_000_000 }), ..Default::default() };
        let (stats, viols) = bfs(&g, vec![init.clone()], &opts);
        run.sample_paths(name, &stats.sample_paths);
        ts += stats.states;
        tt += stats.transitions;
        ti += stats.impl_steps;
        for vv in viols {
            let mut ops: Vec<Value> = prefix.iter().map(describe_sact).collect();
            ops.extend(vv.path);
            run.violation(&vv.signature, &vv.detail, json!({"plan": name, "ops": ops}));
        }
        // no-merge cross-check to a small depth: the verdict must not depend on state merging
        let nm = BfsOptions { max_depth: Some(if thorough { 3 } else { 2 }), merge: false, ..Default::default() };
        let (nstats, nviols) = bfs(&g, vec![init], &nm);
        ti += nstats.impl_steps;
        for vv in nviols {
            let mut ops: Vec<Value> = prefix.iter().map(describe_sact).collect();
            ops.extend(vv.path);
            run.violation(&vv.signature, &vv.detail, json!({"plan": name, "pass": "no-merge", "ops": ops}));
        }
        for i in 0..NAMES.len() {
            agg.add(i, g.c.get(i));
        }
        reports.push(json!({"plan": name, "prefix_len": prefix.len(), "depth_bound": depth, "extended_alphabet": extended, "states": stats.states, "transitions": stats.transitions,
            "level_sizes": stats.level_sizes, "no_merge_pass": {"depth": nm.max_depth, "paths": nstats.states, "transitions": nstats.transitions}}));
    }
    // ---- long histories: hundreds of streams and dozens of outstanding requests on one connection (tables that
    //      are bounded, pruned or indexed by a narrowed id) ----
    {
        let g = G { thorough, c: Counters::new(&NAMES), max_streams: 100_000, max_outstanding: 100_000, extended: false };
        let mut long_ok = 0u64;
        let mut apply = |cur: &mut St, a: SAct, done: &mut Vec<Value>, name: &str| -> bool {
            let o = g.step(cur, &a);
            ti += o.impl_steps;
            tt += 1;
            if done.len() < 60 {
                done.push(describe_sact(&a));
            }
            if let Some((sig, d)) = o.viol.into_iter().next() {
                run.violation(&format!("{}/long-history", sig), &format!("{} ; after {} steps of '{}'", d, tt, name), json!({"plan": name, "first_ops": done, "failing_op": describe_sact(&a)}));
                return false;
            }
            match o.succ.into_iter().next() {
                Some(n) => {
                    *cur = n;
                    true
                }
                None => false,
            }
        };
        let last_req = |st: &St| st.model.out.keys().next_back().cloned().unwrap_or(0);
        for n_streams in [20usize, 300] {
            let name = "hundreds of streams";
            let mut cur = fresh_state();
            let mut done = Vec::new();
            let mut ok = apply(&mut cur, SAct::Connect { tx: 1.0, app: APP_A.into() }, &mut done, name);
            let id = last_req(&cur);
            ok = ok && apply(&mut cur, SAct::Accept { id }, &mut done, name);
            for k in 0..n_streams {
                ok = ok && apply(&mut cur, SAct::CreateStream { tx: 10.0 + k as f64 }, &mut done, name);
            }
            let sids: Vec<u32> = cur.model.issued_streams.iter().cloned().collect();
            if ok && sids.len() == n_streams {
                let (first, mid, last) = (sids[0], sids[n_streams / 2], sids[n_streams - 1]);
                let script: Vec<(SAct, bool)> = vec![
                    (SAct::Publish { sid: first, key: KEY1.into(), mode: "live".into() }, true), (SAct::Play { sid: mid, key: KEY2.into() }, true),
                    (SAct::Publish { sid: last, key: KEY2.into(), mode: "live".into() }, true),
                    (SAct::Audio { sid: first, ts: 7, len: 3 }, false), (SAct::Video { sid: last, ts: 9, len: 0 }, false), (SAct::Audio { sid: mid, ts: 7, len: 3 }, false),
                    (SAct::Meta { sid: last, variant: 5 }, false), (SAct::DeleteStream { sid: mid }, false), (SAct::CloseStream { sid: first }, false),
                    (SAct::Audio { sid: first, ts: 8, len: 3 }, false), (SAct::Video { sid: last, ts: 10, len: 2 }, false), (SAct::DeleteStream { sid: last }, false),
                    (SAct::Video { sid: last, ts: 11, len: 2 }, false), (SAct::PingBurst { ts: 5, n: 2 }, false),
                ];
                for (a, accept) in script {
                    ok = ok && apply(&mut cur, a, &mut done, name);
                    if accept && ok {
                        let id = last_req(&cur);
                        ok = apply(&mut cur, SAct::Accept { id }, &mut done, name);
                    }
                }
            }
            if ok {
                long_ok += 1;
            }
        }
        for n_req in [17usize, 40, 300] {
            let name = "dozens of outstanding requests";
            let mut cur = fresh_state();
            let mut done = Vec::new();
            let mut ok = apply(&mut cur, SAct::Connect { tx: 1.0, app: APP_A.into() }, &mut done, name);
            let id = last_req(&cur);
            ok = ok && apply(&mut cur, SAct::Accept { id }, &mut done, name);
            for k in 0..n_req {
                ok = ok && apply(&mut cur, SAct::CreateStream { tx: 10.0 + k as f64 }, &mut done, name);
            }
            let sids: Vec<u32> = cur.model.issued_streams.iter().cloned().collect();
            let mut ids: Vec<(u32, u32)> = Vec::new();
            for (k, &sid) in sids.iter().enumerate() {
                ok = ok && apply(&mut cur, if k % 2 == 0 { SAct::Publish { sid, key: format!("key {}", k), mode: "live".into() } } else { SAct::Play { sid, key: format!("key {}", k) } }, &mut done, name);
                ids.push((last_req(&cur), sid));
            }
            for &(id, sid) in ids.iter().rev() {
                ok = ok && apply(&mut cur, SAct::Accept { id }, &mut done, name);
                ok = ok && apply(&mut cur, SAct::Audio { sid, ts: 1, len: 1 }, &mut done, name);
            }
            if let Some(&(id, _)) = ids.first() {
                ok = ok && apply(&mut cur, SAct::Reject { id }, &mut done, name);
                ok = ok && apply(&mut cur, SAct::Accept { id }, &mut done, name);
            }
            for &(_, sid) in ids.iter() {
                ok = ok && apply(&mut cur, SAct::CloseStream { sid }, &mut done, name);
            }
            if ok {
                long_ok += 1;
            }
        }
        run.count("long_history_scripts_completed", long_ok);
    }
    run.merge_hist(&agg.map());
    run.set("states", json!(ts));
    run.set("transitions", json!(tt));
    run.set("traces_validated_against_impl", json!(ti));
    run.set("plans", json!(reports));
    run.set("exhaustive", json!(false));
    run.set("bound", json!("all action sequences up to the stated depth from each start state (start states are themselves reached through the real session); <= 2 created streams, <= 2 outstanding requests"));
    run.set("explanation", json!("every transition calls the real ServerSession (handle_input with a library-encoded peer message, or accept_request/reject_request/finish_playing) and compares request/finished/media/metadata events, replies and Ok/Err with the reference protocol model; refusals must leave the logic fingerprint byte-identical"));
    run.sample(json!({"ops": ["Connect{a}", "Accept{0}", "CreateStream", "Publish{1,k1,live}", "Accept{1}", "DeleteStream{1}", "Audio{1}"], "expect": "PublishStreamFinished{a,k1} on delete, then no audio event"}));
    run.assume("peer messages are encoded and replies decoded with the library's own codec (codec conformance is C06/C07); nodes are keyed by the session's logic fingerprint + model state");
    if run.violation_count() == 0 {
        run.require_hist(&["requests_surfaced", "accepts_ok", "accepts_refused", "rejects_ok", "rejects_refused", "media_events", "finished_events", "error_replies_before_connect", "streams_created", "pings", "metadata_events"]);
    }
}
