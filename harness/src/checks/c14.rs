//! C14 — AMF0 decoding uses bounded stack and memory on every input.
//! E4: nesting ladders and count-field menus, each case in a child process with the subject on a
//! thread with a fixed-size stack and a counting allocator; plus the token grammar in-process.

use crate::alloc;
use crate::child::{result_json, run_case, Exit};
use crate::ev::Run;
use crate::util::guarded;
use rayon::prelude::*;
use serde_json::json;
use std::io::Cursor;
use std::sync::atomic::{AtomicU64, Ordering};

pub fn build_input(family: &str, d: usize) -> Vec<u8> {
    let mut v = Vec::new();
    match family {
        "nested-strict-arrays" => {
            for _ in 0..d {
                v.extend_from_slice(&[10, 0, 0, 0, 1]);
            }
        }
        "nested-objects" => {
            for _ in 0..d {
                v.extend_from_slice(&[3, 0, 1, b'a']);
            }
        }
        "nested-ecma-arrays" => {
            for _ in 0..d {
                v.extend_from_slice(&[8, 0, 0, 0, 1, 0, 1, b'a']);
            }
        }
        "alternating-array-object" => {
            for i in 0..d {
                if i % 2 == 0 {
                    v.extend_from_slice(&[10, 0, 0, 0, 1]);
                } else {
                    v.extend_from_slice(&[3, 0, 1, b'a']);
                }
            }
        }
        "nested-closed" => {
            // properly terminated nesting: d objects, innermost value null, then d terminators
            for _ in 0..d {
                v.extend_from_slice(&[3, 0, 1, b'a']);
            }
            v.push(5);
            for _ in 0..d {
                v.extend_from_slice(&[0, 0, 9]);
            }
        }
        "array-count-max-no-elements" => {
            for _ in 0..d.max(1) {
                v.extend_from_slice(&[10, 0xFF, 0xFF, 0xFF, 0xFF]);
            }
        }
        "ecma-count-max" => {
            v.extend_from_slice(&[8, 0xFF, 0xFF, 0xFF, 0xFF]);
            for i in 0..d {
                v.extend_from_slice(&[0, 1, b'a' + (i % 26) as u8, 5]);
            }
            v.extend_from_slice(&[0, 0, 9]);
        }
        "string-length-max-no-bytes" => {
            for _ in 0..d.max(1) {
                v.extend_from_slice(&[2, 0xFF, 0xFF]);
            }
        }
        "flat-object-valueless-properties" => {
            // one object whose properties have the object-end byte where the value should be
            v.push(3);
            for _ in 0..d {
                v.extend_from_slice(&[0, 1, b'a', 9]);
            }
            v.extend_from_slice(&[0, 0, 9]);
        }
        "flat-object-many-properties" => {
            v.push(3);
            for i in 0..d {
                v.extend_from_slice(&[0, 2, b'a' + (i % 26) as u8, b'a' + ((i / 26) % 26) as u8, 5]);
            }
            v.extend_from_slice(&[0, 0, 9]);
        }
        "many-empty-objects" => {
            for _ in 0..d {
                v.extend_from_slice(&[3, 0, 0, 9]);
            }
        }
        "array-of-empty-objects" => {
            v.push(10);
            v.extend_from_slice(&(d as u32).to_be_bytes());
            for _ in 0..d {
                v.extend_from_slice(&[3, 0, 0, 9]);
            }
        }
        "many-empty-ecma-arrays" => {
            for _ in 0..d {
                v.extend_from_slice(&[8, 0, 0, 0, 0, 0, 0, 9]);
            }
        }
        "many-short-strings" => {
            for _ in 0..d {
                v.extend_from_slice(&[2, 0, 1, b'x']);
            }
        }
        "marker-then-ffffffff" => {
            // d = marker byte: any type whose length/count field the decoder might trust
            v.extend_from_slice(&[d as u8, 0xFF, 0xFF, 0xFF, 0xFF, b'a', b'b', b'c']);
        }
        "marker-then-10000000" => {
            v.extend_from_slice(&[d as u8, 0x10, 0x00, 0x00, 0x00, b'a', b'b', b'c']);
        }
        "marker-then-ffff" => {
            v.extend_from_slice(&[d as u8, 0xFF, 0xFF, b'a']);
        }
        "many-nulls" => {
            v.resize(d, 5);
        }
        "array-of-many-nulls" => {
            v.extend_from_slice(&[10]);
            v.extend_from_slice(&(d as u32).to_be_bytes());
            v.resize(5 + d, 5);
        }
        "object-name-4byte" | "object-name-a4byte" | "string-4byte" | "string-a4byte" | "object-name-4byte-cut" | "string-4byte-cut" => {
            // a property name / string of about d bytes made of 4-byte characters (optionally shifted by one ASCII
            // byte), so that any fixed truncation or buffering offset falls inside a character; "-cut": the input
            // ends 3 bytes before the declared length
            let mut text: Vec<u8> = Vec::new();
            if family.contains("a4byte") {
                text.push(b'a');
            }
            while text.len() + 4 <= d.max(4) {
                text.extend_from_slice("\u{1D11E}".as_bytes());
            }
            let l = text.len().min(65_535);
            let text = &text[..l];
            if family.starts_with("object") {
                v.push(3);
                v.extend_from_slice(&(l as u16).to_be_bytes());
                v.extend_from_slice(text);
                v.push(5);
                v.extend_from_slice(&[0, 0, 9]);
            } else {
                v.push(2);
                v.extend_from_slice(&(l as u16).to_be_bytes());
                v.extend_from_slice(text);
            }
            if family.ends_with("-cut") {
                let n = if family.starts_with("object") { 7 } else { 3 };
                v.truncate(v.len().saturating_sub(n));
            }
        }
        "reference-doubling" | "reference-doubling-objects" => {
            // AMF0 references (marker 07 + u16 index; unsupported today): container k consists of two references to
            // container k-1 - a decoder that resolves references by copying doubles its output every 11 bytes
            let obj = family.ends_with("objects");
            if obj {
                v.extend_from_slice(&[3, 0, 1, b'a', 5, 0, 0, 9]);
            } else {
                v.extend_from_slice(&[10, 0, 0, 0, 1, 5]);
            }
            for k in 0..d {
                let idx = (k as u16).to_be_bytes();
                if obj {
                    v.extend_from_slice(&[3, 0, 1, b'a', 7, idx[0], idx[1], 0, 1, b'b', 7, idx[0], idx[1], 0, 0, 9]);
                } else {
                    v.extend_from_slice(&[10, 0, 0, 0, 2, 7, idx[0], idx[1], 7, idx[0], idx[1]]);
                }
            }
        }
        "ecma-numeric-key" | "object-numeric-key" | "ecma-numeric-keys-descending" => {
            // keys that read as array indices: a decoder that "completes" sparse arrays allocates by VALUE of a key
            let marker_and_count: Vec<u8> = if family.starts_with("ecma") { vec![8, 0, 0, 0, 1] } else { vec![3] };
            v.extend_from_slice(&marker_and_count);
            let keys: Vec<String> = if family.ends_with("descending") { vec![d.to_string(), (d / 2).to_string(), "0".to_string()] } else { vec![d.to_string()] };
            for k in keys {
                v.extend_from_slice(&(k.len() as u16).to_be_bytes());
                v.extend_from_slice(k.as_bytes());
                v.push(5);
            }
            v.extend_from_slice(&[0, 0, 9]);
        }
        f if f.starts_with("nest:") => {
            // "nest:<prefix>:<body>": the prefix units once, then d units cycling through the body pattern
            // (A = strict array of one element, O = object with one property, E = ECMA array with one property)
            let parts: Vec<&str> = f.split(':').collect();
            let unit = |c: char, v: &mut Vec<u8>| match c {
                'A' => v.extend_from_slice(&[10, 0, 0, 0, 1]),
                'O' => v.extend_from_slice(&[3, 0, 1, b'a']),
                'E' => v.extend_from_slice(&[8, 0, 0, 0, 1, 0, 1, b'a']),
                _ => panic!("unknown unit {}", c),
            };
            for c in parts[1].chars() {
                unit(c, &mut v);
            }
            let body: Vec<char> = parts[2].chars().collect();
            for i in 0..d {
                unit(body[i % body.len()], &mut v);
            }
        }
        _ => panic!("unknown family {}", family),
    }
    v
}

/// Child-side: decode on a thread with the given stack, print RESULT line.
pub fn case_main(args: &[String]) -> i32 {
    let family = args[0].clone();
    let d: usize = args[1].parse().unwrap();
    let stack_kib: usize = args[2].parse().unwrap();
    let input = build_input(&family, d);
    let len = input.len();
    let h = std::thread::Builder::new()
        .stack_size(stack_kib * 1024)
        .spawn(move || {
            let base = alloc::begin();
            let r = guarded(|| {
                let mut c = Cursor::new(&input[..]);
                rml_amf0::deserialize(&mut c).map(|v| v.len())
            });
            let peak = alloc::peak_since(base);
            (r.map(|x| x.map_err(|e| format!("{:?}", e))), peak)
        })
        .expect("spawn");
    let (r, peak) = h.join().expect("join");
    let (outcome, detail) = match r {
        Err(p) => ("panic", p),
        Ok(Ok(n)) => ("ok", format!("{} values", n)),
        Ok(Err(e)) => ("err", e.chars().take(80).collect()),
    };
    println!("RESULT {}", json!({"outcome": outcome, "detail": detail, "peak_alloc": peak, "input_len": len}));
    0
}

fn token_grammar(run: &Run, maxtok: usize) -> u64 {
    let toks: Vec<Vec<u8>> = vec![
        vec![0, 0x40, 0, 0, 0, 0, 0, 0, 0], vec![1, 1], vec![2, 0, 1, b'x'], vec![2, 0xFF, 0xFF], vec![3], vec![0, 1, b'a'], vec![0, 0, 9], vec![5], vec![6],
        vec![8, 0, 0, 0, 9], vec![8, 0xFF, 0xFF, 0xFF, 0xFF], vec![10, 0, 0, 0, 2], vec![10, 0xFF, 0xFF, 0xFF, 0xFF], vec![9], vec![0, 0], vec![4], vec![10],
        // strings and names made of NUL bytes, a numeric name
        vec![2, 0, 1, 0], vec![2, 0, 3, 0, 0, 0], vec![0, 1, 0], vec![0, 2, b'1', b'7'],
        // references to the first and second container
        vec![7, 0, 0], vec![7, 0, 1],
    ];
    let total: u64 = (1..=maxtok as u32).map(|l| (toks.len() as u64).pow(l)).sum();
    let n = AtomicU64::new(0);
    (0..total).into_par_iter().for_each(|mut ix| {
        let mut len = 1u32;
        while ix >= (toks.len() as u64).pow(len) {
            ix -= (toks.len() as u64).pow(len);
            len += 1;
        }
        let mut input = Vec::new();
        let mut x = ix;
        for _ in 0..len {
            input.extend_from_slice(&toks[(x % toks.len() as u64) as usize]);
            x /= toks.len() as u64;
        }
        n.fetch_add(1, Ordering::Relaxed);
        crate::watchdog::enter("token-grammar input", json!({"bytes": crate::util::hex(&input)}));
        let base = alloc::begin();
        let r = guarded(|| {
            let mut c = Cursor::new(&input[..]);
            rml_amf0::deserialize(&mut c).is_ok()
        });
        let peak = alloc::peak_since(base);
        crate::watchdog::leave();
        match r {
            Err(p) => run.violation("C14/panic/token-grammar", &format!("{} on {}", p, crate::util::hex(&input)), json!({"bytes": crate::util::hex(&input)})),
            Ok(_) => {
                if peak > 256 * input.len() + 128 * 1024 {
                    run.violation("C14/memory/token-grammar", &format!("peak allocation {} bytes for a {}-byte input {}", peak, input.len(), crate::util::hex(&input)), json!({"bytes": crate::util::hex(&input)}));
                }
            }
        }
        // the same bytes as the body of an AMF-carrying RTMP message (short inputs: with and without the leading format byte)
        if input.len() <= 24 {
            for t in [15u8, 17, 18, 20] {
                for lead in [false, true] {
                    let mut body: Vec<u8> = if lead { vec![0] } else { vec![] };
                    body.extend_from_slice(&input);
                    let p = rml_rtmp::messages::MessagePayload { timestamp: rml_rtmp::time::RtmpTimestamp::new(0), type_id: t, message_stream_id: 1, data: bytes::Bytes::from(body.clone()) };
                    crate::watchdog::enter("token-grammar input as a message body", json!({"type_id": t, "body": crate::util::hex(&body)}));
                    let base = alloc::begin();
                    let r = guarded(|| p.to_rtmp_message().is_ok());
                    let peak = alloc::peak_since(base);
                    crate::watchdog::leave();
                    match r {
                        Err(pn) => run.violation("C14/panic/message-body", &format!("{} on a type {} message with body {}", pn, t, crate::util::hex(&body)), json!({"type_id": t, "body": crate::util::hex(&body)})),
                        Ok(_) => {
                            if peak > 256 * body.len() + 128 * 1024 {
                                run.violation("C14/memory/message-body", &format!("peak allocation {} bytes for a {}-byte type {} body {}", peak, body.len(), t, crate::util::hex(&body)), json!({"type_id": t, "body": crate::util::hex(&body)}));
                            }
                        }
                    }
                }
            }
        }
    });
    n.load(Ordering::Relaxed)
}

pub fn run(run: &Run) {
    let thorough = run.thorough();
    let max_len: usize = if thorough { 16_777_215 } else { 1_000_000 };
    let stacks: Vec<usize> = if thorough { vec![2048, 8192, 256] } else { vec![2048] };
    let mut cases: Vec<(String, usize, usize)> = Vec::new();
    let units = [("nested-strict-arrays", 5usize), ("nested-objects", 4), ("nested-ecma-arrays", 8), ("alternating-array-object", 5), ("nested-closed", 7),
        ("array-count-max-no-elements", 5), ("string-length-max-no-bytes", 3), ("ecma-count-max", 4), ("array-of-many-nulls", 1),
        ("flat-object-valueless-properties", 4), ("flat-object-many-properties", 5), ("many-empty-objects", 4), ("array-of-empty-objects", 4),
        ("many-empty-ecma-arrays", 8), ("many-short-strings", 4)];
    for (fam, unit) in units.iter() {
        let top = max_len / unit;
        let mut d = 1usize;
        let mut ladder = Vec::new();
        while d < top {
            ladder.push(d);
            d *= 10;
        }
        ladder.push(top);
        if fam.starts_with("flat") || fam.starts_with("many-empty") || fam.starts_with("array-of-empty") {
            ladder.extend([1000, 5000, 20_000, 50_000, 200_000]);
        }
        if fam.starts_with("nested") || fam.starts_with("alternating") {
            // the rungs where a recursion limit would sit
            ladder.extend([2, 16, 64, 127, 128, 129, 255, 256, 257, 1000, 5000, 20_000, 50_000]);
        }
        ladder.retain(|x| *x <= top);
        ladder.sort();
        ladder.dedup();
        for d in ladder {
            for &st in stacks.iter() {
                cases.push((fam.to_string(), d, st));
            }
        }
    }
    // mixed nests: a short prefix of one container kind above a long run of another (or of a repeating
    // pattern), so that a depth counter that advances differently per kind, or a limit compared with ==,
    // is stepped over
    let prefixes: Vec<&str> = if thorough { vec!["A", "AA", "AAA", "O", "OO", "E", "AO", "OE", "EA"] } else { vec!["A", "AA", "O", "E", "AO"] };
    let bodies: Vec<&str> = if thorough { vec!["A", "O", "E", "AO", "OE", "AE", "AOE", "AAO", "OOA"] } else { vec!["A", "O", "E", "AO"] };
    for p in prefixes.iter() {
        for b in bodies.iter() {
            let top = max_len / 8;
            let mut ladder: Vec<usize> = vec![120, 126, 127, 128, 129, 130, 254, 255, 256, 257, 300, 1000, 20_000, top];
            if !thorough {
                ladder = vec![126, 127, 128, 129, 130, 256, 300, 20_000, top];
            }
            for d in ladder {
                cases.push((format!("nest:{}:{}", p, b), d, 2048));
            }
        }
    }
    for fam in ["reference-doubling", "reference-doubling-objects"] {
        for d in [1usize, 2, 8, 16, 24, 30, 40, 64, 200, 5000] {
            cases.push((fam.to_string(), d, 2048));
        }
    }
    for fam in ["ecma-numeric-key", "object-numeric-key", "ecma-numeric-keys-descending"] {
        for d in [0usize, 1, 9, 10, 255, 65_535, 300_000, 16_777_216, 2_147_483_647, 4_294_967_295] {
            cases.push((fam.to_string(), d, 2048));
        }
    }
    // long multi-byte names and strings (truncation / chunked validation at a fixed offset)
    for fam in ["object-name-4byte", "object-name-a4byte", "string-4byte", "string-a4byte", "object-name-4byte-cut", "string-4byte-cut"] {
        for d in [8usize, 200, 252, 256, 260, 1020, 1024, 1028, 4092, 4096, 4100, 8192, 8200, 65_532, 65_535] {
            cases.push((fam.to_string(), d, 2048));
        }
    }
    // every marker byte followed by a maximal length / count field
    for m in 0..=255usize {
        for fam in ["marker-then-ffffffff", "marker-then-10000000", "marker-then-ffff"] {
            cases.push((fam.to_string(), m, 2048));
        }
    }
    if thorough {
        cases.push(("many-nulls".into(), 16_777_215, 2048));
    } else {
        cases.push(("many-nulls".into(), 1_000_000, 2048));
    }
    let n_ok = AtomicU64::new(0);
    let n_err = AtomicU64::new(0);
    let deepest_ok = AtomicU64::new(0);
    let pool = rayon::ThreadPoolBuilder::new().num_threads(if thorough { 4 } else { 8 }).build().unwrap();
    pool.install(|| {
        cases.par_iter().for_each(|(fam, d, st)| {
            let big = fam == "many-nulls" || fam == "array-of-many-nulls";
            let mem: u64 = if big { 12 << 30 } else { 4 << 30 };
            let r = run_case(&["amf0".to_string(), fam.clone(), d.to_string(), st.to_string()], if thorough { 120.0 } else { 30.0 }, mem);
            let replay = json!({"family": fam, "depth_or_count": d, "stack_kib": st, "input_bytes_head": crate::util::hex(&build_input(fam, if fam.starts_with("marker") { *d } else { (*d).min(6) }))});
            match r.exit {
                Exit::Code(0) => match result_json(&r) {
                    None => run.violation(&format!("C14/abnormal-exit/{}", fam), &format!("child printed no result ({})", r.stderr_tail), replay),
                    Some(j) => {
                        let outcome = j["outcome"].as_str().unwrap_or("");
                        let peak = j["peak_alloc"].as_u64().unwrap_or(0);
                        let len = j["input_len"].as_u64().unwrap_or(0);
                        if outcome == "panic" {
                            run.violation(&format!("C14/panic/{}", fam), &format!("decoding panicked at depth/count {}: {}", d, j["detail"]), replay);
                        } else if peak > 256 * len + 128 * 1024 {
                            run.violation(&format!("C14/memory/{}", fam), &format!("peak allocation {} bytes for {} input bytes (bound 256 x input + 128 KiB); depth/count {}", peak, len, d), replay);
                        } else {
                            if outcome == "ok" {
                                n_ok.fetch_add(1, Ordering::Relaxed);
                                if fam.starts_with("nested") {
                                    deepest_ok.fetch_max(*d as u64, Ordering::Relaxed);
                                }
                            } else {
                                n_err.fetch_add(1, Ordering::Relaxed);
                            }
                        }
                    }
                },
                Exit::Signal(s) => {
                    let what = if s == 11 || s == 6 || s == 7 { "stack-overflow-or-abort" } else { "killed" };
                    run.violation(&format!("C14/{}/{}", what, fam), &format!("decoding {} at depth/count {} ({} input bytes) on a {} KiB stack terminated the process with signal {} ({})", fam, d, build_input(fam, *d).len(), st, s, r.stderr_tail.replace('\n', " ")), replay)
                }
                Exit::TimedOut => run.violation(&format!("C14/timeout/{}", fam), &format!("decoding did not finish within the wall cap at depth/count {}", d), replay),
                Exit::Code(c) => run.violation(&format!("C14/abnormal-exit/{}", fam), &format!("exit code {} at depth/count {}: {}", c, d, r.stderr_tail.replace('\n', " ")), replay),
            }
        });
    });
    // in-process part: skipped when the child-process cases already failed (a decoder that hangs or overflows there
    // would take this process down or stall it); a call that does not return within the cap ends the run with a verdict
    // every body of up to two bytes over a small byte menu, for the four AMF-carrying message types
    {
        let menu: [u8; 9] = [0, 1, 2, 3, 5, 8, 9, 10, 0xFF];
        let mut bodies: Vec<Vec<u8>> = vec![vec![]];
        for a in menu {
            bodies.push(vec![a]);
            for b in menu {
                bodies.push(vec![a, b]);
            }
        }
        for t in [15u8, 17, 18, 20] {
            for body in bodies.iter() {
                let p = rml_rtmp::messages::MessagePayload { timestamp: rml_rtmp::time::RtmpTimestamp::new(0), type_id: t, message_stream_id: 1, data: bytes::Bytes::from(body.clone()) };
                if let Err(pn) = guarded(|| p.to_rtmp_message().is_ok()) {
                    run.violation("C14/panic/message-body", &format!("{} on a type {} message with body {}", pn, t, crate::util::hex(body)), json!({"type_id": t, "body": crate::util::hex(body)}));
                }
            }
        }
        run.count("tiny_message_bodies", 4 * bodies.len() as u64);
    }
    let g = if run.violation_count() == 0 {
        crate::watchdog::start("C14", "C14/hang/token-grammar", if thorough { 60.0 } else { 20.0 });
        token_grammar(run, if thorough { 5 } else { 4 })
    } else {
        run.cap_hit("token grammar skipped: the child-process cases already reported violations");
        0
    };
    let total = cases.len() as u64 + g;
    run.set("evaluations", json!(total));
    run.set("distinct_nontrivial", json!(total));
    run.set("rule", json!("child-process cases: (family, depth or count on the ladder 1,10,100,... up to 16 MiB / unit plus rungs around 128/256/1000/5000/20000/50000, stack size); mixed nests nest:<prefix>:<body> (prefix of 1-3 containers of one kind above a run of another kind or of a repeating pattern) at rungs around 128/256 and deep; in-process: every sequence of <= 4 (quick) / 5 (thorough) tokens of a 23-token AMF0 grammar; each input also as the body of a type 15, 17, 18 and 20 RTMP message through MessagePayload::to_rtmp_message (the other AMF0 entry point); all distinct"));
    run.set("exhaustive", json!(false));
    run.set("stack_sizes_kib", json!(stacks));
    run.set("max_input_bytes", json!(max_len));
    run.count("child_cases", cases.len() as u64);
    run.count("child_cases_decoded_ok", n_ok.load(Ordering::Relaxed));
    run.count("child_cases_rejected_with_error", n_err.load(Ordering::Relaxed));
    run.count("token_grammar_inputs", g);
    run.set("deepest_nesting_decoded_ok", json!(deepest_ok.load(Ordering::Relaxed)));
    run.sample(json!({"family": "nested-strict-arrays", "depth": 10000, "stack_kib": 2048, "input": "0a00000001 x 10000"}));
    run.sample(json!({"family": "array-count-max-no-elements", "input": "0affffffff", "expect": "no allocation proportional to the declared count"}));
    run.assume("memory bound: peak live allocation <= 256 x input length + 128 KiB (size_of::<Amf0Value>() = 56, Vec doubling, 64 KiB string buffers)");
    if run.violation_count() == 0 {
        run.require_hist(&["child_cases", "child_cases_decoded_ok", "token_grammar_inputs"]);
    }
}
