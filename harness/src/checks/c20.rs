//! C20 — RTMP timestamps form a wrap-around clock.
//! E3: {a in A} x all 2^32 d, and all 2^32 a x {d in D}; integer reference R7.

use crate::ev::Run;
use crate::refmodel::ts;
use rayon::prelude::*;
use rml_rtmp::time::RtmpTimestamp;
use serde_json::json;
use std::cmp::Ordering;
use std::sync::atomic::{AtomicU64, Ordering as AO};

fn anchors(thorough: bool) -> Vec<u32> {
    let mut v: Vec<u32> = Vec::new();
    let centers: Vec<u64> = vec![0, 1 << 24, 1 << 31, (1u64 << 32) - 1];
    for c in centers {
        for o in -2i64..=2 {
            let x = ((c as i64 + o).rem_euclid(1i64 << 32)) as u32;
            if !v.contains(&x) {
                v.push(x);
            }
        }
    }
    if thorough {
        for x in [1000u32, 4_000_000_000, 3_000_000_000, 1 << 16, 0x1234_5678, 0xFF_FFFF, 1 << 28] {
            if !v.contains(&x) {
                v.push(x);
            }
        }
    }
    v
}

/// Checks one (a, d) pair; returns Some(signature, detail) on the first disagreement.
#[inline(always)]
fn check_pair(a: u32, d: u32) -> Option<(&'static str, String)> {
    let ta = RtmpTimestamp::new(a);
    let td = RtmpTimestamp::new(d);
    let sum = ts::add(a, d);
    let dif = ts::sub(a, d);
    let s1 = ta + td;
    let s2 = ta + d;
    let m1 = ta - td;
    let m2 = ta - d;
    if s1.value != sum || s2.value != sum {
        return Some(("add", format!("a={} d={} a+d: ts+ts={} ts+u32={} expected {}", a, d, s1.value, s2.value, sum)));
    }
    if m1.value != dif || m2.value != dif {
        return Some(("sub", format!("a={} d={} a-d: ts-ts={} ts-u32={} expected {}", a, d, m1.value, m2.value, dif)));
    }
    if (s1 - td).value != a || (s2 - d).value != a || (m1 + td).value != a || (m2 + d).value != a {
        return Some(("inverse", format!("a={} d={} (a+d)-d or (a-d)+d differs from a", a, d)));
    }
    // order of a versus b = a + d
    let b = sum;
    let tb = RtmpTimestamp::new(b);
    let c_ab = ta.cmp(&tb);
    let c_ba = tb.cmp(&ta);
    let eq = ta == tb;
    if eq != (a == b) || (c_ab == Ordering::Equal) != (a == b) {
        return Some(("eq-vs-cmp", format!("a={} b={} ==:{} cmp:{:?}", a, b, eq, c_ab)));
    }
    if c_ab != c_ba.reverse() {
        return Some(("antisymmetry", format!("a={} b={} cmp(a,b)={:?} cmp(b,a)={:?}", a, b, c_ab, c_ba)));
    }
    if ta.partial_cmp(&tb) != Some(c_ab) {
        return Some(("partial-vs-total", format!("a={} b={}", a, b)));
    }
    if let Some(exp) = ts::order(a, b) {
        if c_ab != exp {
            return Some(("order", format!("a={} b=a+{}={} expected {:?} got {:?}", a, d, b, exp, c_ab)));
        }
        let lt = ta < tb;
        let gt = ta > tb;
        let le = ta <= tb;
        let ge = ta >= tb;
        if lt != (exp == Ordering::Less) || gt != (exp == Ordering::Greater)
            || le != (exp != Ordering::Greater) || ge != (exp != Ordering::Less) {
            return Some(("operators", format!("a={} b={} <:{} >:{} <=:{} >=:{} expected {:?}", a, b, lt, gt, le, ge, exp)));
        }
    } else {
        // antipode: only antisymmetry (checked above) and non-equality
        if c_ab == Ordering::Equal {
            return Some(("antipode-equal", format!("a={} b={}", a, b)));
        }
    }
    // comparisons against plain integers agree with comparisons between timestamps
    let p1 = ta.partial_cmp(&b);
    let p2 = a.partial_cmp(&tb);
    if p1 != Some(c_ab) || p2 != Some(c_ab) {
        return Some(("mixed-cmp", format!("a={} b={} ts?u32={:?} u32?ts={:?} ts?ts={:?}", a, b, p1, p2, c_ab)));
    }
    if (ta == b) != eq || (a == tb) != eq {
        return Some(("mixed-eq", format!("a={} b={}", a, b)));
    }
    if (ta < b) != (ta < tb) || (ta > b) != (ta > tb) || (a < tb) != (ta < tb) || (a > tb) != (ta > tb)
        || (ta <= b) != (ta <= tb) || (a >= tb) != (ta >= tb) {
        return Some(("mixed-operators", format!("a={} b={}", a, b)));
    }
    None
}

pub fn run(run: &Run) {
    let thorough = run.thorough();
    let set = anchors(thorough);
    run.set("anchor_values", json!(set.len()));
    run.set("anchors_sample", json!(set.iter().take(24).collect::<Vec<_>>()));
    let evals = AtomicU64::new(0);
    let outcomes = AtomicU64::new(0); // bitmask of orderings seen
    // full 2^32 sweep of the other operand; in quick tier use a subset of anchors for the full sweeps
    // thorough: every anchor is swept against all 2^32 values of the other operand, in both roles.
    // quick: two anchors a are swept against all 2^32 d (so every distance class is complete),
    // and every anchor d against a strided set of a (stride 251 plus all a within 4096 of a
    // multiple of 2^28) - labelled as such, exhaustive only in the first role.
    let full_a: Vec<u32> = if thorough { set.clone() } else { vec![0xFFFF_FFFE, 0x8000_0001] };
    let full_d: Vec<u32> = if thorough { set.clone() } else { Vec::new() };
    const BLOCK: u64 = 1 << 22;
    let blocks: Vec<u64> = (0..(1u64 << 32) / BLOCK).collect();
    blocks.par_iter().for_each(|blk| {
        let lo = blk * BLOCK;
        let mut mask = 0u64;
        let mut n = 0u64;
        for x in lo..lo + BLOCK {
            if run.reports() > 200 {
                break; // enough counterexamples; do not drown in them
            }
            let x = x as u32;
            for &y in full_a.iter() {
                if let Some((sig, detail)) = check_pair(y, x) {
                    run.violation(&format!("C20/{}", sig), &detail, json!({"a": y, "d": x}));
                }
                n += 1;
                mask |= match ts::order(y, ts::add(y, x)) { Some(Ordering::Less) => 1, Some(Ordering::Equal) => 2, Some(Ordering::Greater) => 4, None => 8 };
            }
            for &y in full_d.iter() {
                if let Some((sig, detail)) = check_pair(x, y) {
                    run.violation(&format!("C20/{}", sig), &detail, json!({"a": x, "d": y}));
                }
                n += 1;
            }
        }
        evals.fetch_add(n, AO::Relaxed);
        outcomes.fetch_or(mask, AO::Relaxed);
    });
    if !thorough {
        let mut avals: Vec<u32> = (0..(1u64 << 32)).step_by(251).map(|x| x as u32).collect();
        for k in 0..=16u64 {
            let c = (k << 28) as i64;
            for o in -4096i64..=4096 {
                avals.push((c + o).rem_euclid(1i64 << 32) as u32);
            }
        }
        let n: u64 = avals
            .par_chunks(1 << 16)
            .map(|chunk| {
                let mut n = 0u64;
                for &a in chunk {
                    if run.reports() > 200 {
                        break;
                    }
                    for &d in set.iter() {
                        if let Some((sig, detail)) = check_pair(a, d) {
                            run.violation(&format!("C20/{}", sig), &detail, json!({"a": a, "d": d}));
                        }
                        n += 1;
                    }
                }
                n
            })
            .sum();
        evals.fetch_add(n, AO::Relaxed);
        run.set("quick_strided_a_values", json!(avals.len()));
    }
    // anchor x anchor (all pairs, includes every threshold combination)
    let mut n = 0u64;
    for &a in set.iter() {
        for &d in set.iter() {
            if let Some((sig, detail)) = check_pair(a, d) {
                run.violation(&format!("C20/{}", sig), &detail, json!({"a": a, "d": d}));
            }
            n += 1;
        }
    }
    evals.fetch_add(n, AO::Relaxed);
    let e = evals.load(AO::Relaxed);
    run.set("evaluations", json!(e));
    run.set("distinct_nontrivial", json!(e));
    run.set("rule", json!("each evaluation is an (a,d) pair: every d in 0..2^32 against each full-sweep anchor a; every a in 0..2^32 (thorough) or a stride-251 + boundary-neighbourhood set of a (quick) against each anchor d; plus all anchor x anchor pairs; per pair: +,- exact mod 2^32 and mutually inverse (timestamp and u32 right operands), == vs cmp, antisymmetry, order of a vs a+d against the integer reference, the six mixed u32/timestamp comparisons"));
    run.set("full_sweep_a_anchors", json!(full_a));
    run.set("full_sweep_d_anchors", json!(full_d));
    run.set("exhaustive", json!(thorough));
    run.set("outcome_classes_seen_mask", json!(outcomes.load(AO::Relaxed)));
    run.sample(json!({"a": 0xFFFF_FFFFu32, "d": 1, "expect": "a+d=0, a<a+d"}));
    run.sample(json!({"a": 5, "d": 0x8000_0000u32, "expect": "antipode: only antisymmetry and non-equality"}));
    run.sample(json!({"a": 16777216, "d": 0x7FFF_FFFFu32, "expect": "a<a+d"}));
    run.assume("the domain u32 x u32 is covered on the stated anchor lines (a fixed / d fixed), not on all 2^64 pairs; the functions are value-generic (no branch on magnitudes other than the 2^31 distance test)");
    if outcomes.load(AO::Relaxed) != 15 && run.violation_count() == 0 {
        // vacuity warning (a run that stopped early because of violations reaches fewer classes: not this case)
        eprintln!("WARNING property=C20 vacuity: not all ordering classes (less / equal / greater / antipode) were reached");
        run.cap_hit("not all ordering classes reached");
    }
}
