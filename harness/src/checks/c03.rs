//! C03 — no network input can panic, overflow, hang or exhaust memory.
//! (a) deserializer token-alphabet state graph incl. illegal headers + short byte strings,
//! (b) message decoder: all 256 type ids x body grammar, (c) every session state reached by the
//! C09/C10 alphabets x a malformed-message menu, (d) handshake byte menus.
//! Panic = catch_unwind; memory = counting allocator; hang = in-process watchdog.

use super::c09;
use super::c10;
use super::sess::*;
use crate::alloc;
use crate::bfs::{bfs, BfsOptions, Graph, StepOut};
use crate::ev::Run;
use crate::refmodel::amf0::{self as r3, V};
use crate::util::{guarded, hash128, hex, panic_class};
use bytes::Bytes;
use rayon::prelude::*;
use rml_rtmp::chunk_io::ChunkDeserializer;
use rml_rtmp::handshake::{Handshake, PeerType};
use rml_rtmp::messages::MessagePayload;
use rml_rtmp::time::RtmpTimestamp;
use serde_json::{json, Value};
use std::sync::atomic::{AtomicU64, Ordering};
use std::sync::Mutex;
use std::time::Instant;

const MIB: usize = 1 << 20;

// ---- watchdog -------------------------------------------------------------------------------

struct Slot {
    busy_since: Option<Instant>,
    what: &'static str,
    a: u64,
    b: u64,
}

static SLOTS: Mutex<Vec<Slot>> = Mutex::new(Vec::new());
static CALLS: AtomicU64 = AtomicU64::new(0);

fn slot_index() -> usize {
    rayon::current_thread_index().map(|i| i + 1).unwrap_or(0)
}

fn enter(what: &'static str, a: u64, b: u64) {
    let i = slot_index();
    let mut s = SLOTS.lock().unwrap();
    while s.len() <= i {
        s.push(Slot { busy_since: None, what: "", a: 0, b: 0 });
    }
    s[i] = Slot { busy_since: Some(Instant::now()), what, a, b };
}

fn leave() {
    let i = slot_index();
    let mut s = SLOTS.lock().unwrap();
    if i < s.len() {
        s[i].busy_since = None;
    }
}

fn start_watchdog(cap_s: f64) {
    std::thread::spawn(move || loop {
        std::thread::sleep(std::time::Duration::from_millis(500));
        let s = SLOTS.lock().unwrap();
        for sl in s.iter() {
            if let Some(t) = sl.busy_since {
                if t.elapsed().as_secs_f64() > cap_s {
                    let path = crate::ev::verif_dir().join("replays").join("C03-hang.json");
                    let _ = std::fs::create_dir_all(path.parent().unwrap());
                    let _ = std::fs::write(&path, serde_json::to_string_pretty(&json!({"property": "C03", "signature": "C03/hang", "where": sl.what, "a": sl.a, "b": sl.b})).unwrap());
                    println!("DETAIL property=C03 signature=C03/hang :: a call into the library did not return within {} s ({} {} {})", cap_s, sl.what, sl.a, sl.b);
                    println!("VIOLATION property=C03 replay={}", path.display());
                    std::process::exit(1);
                }
            }
        }
    });
}

/// Runs one library call under panic capture, allocation accounting and the watchdog.
fn probe<T, F: FnOnce() -> T>(what: &'static str, a: u64, b: u64, received: usize, factor: usize, f: F) -> Result<T, (String, String)> {
    CALLS.fetch_add(1, Ordering::Relaxed);
    enter(what, a, b);
    let base = alloc::begin();
    let r = guarded(f);
    let peak = alloc::peak_since(base);
    leave();
    match r {
        Err(p) => Err((format!("C03/panic/{}/{}", what, panic_class(&p)), format!("panicked: {}", p))),
        Ok(v) => {
            let bound = factor * received + 17 * MIB;
            if peak > bound {
                return Err((format!("C03/memory/{}", what), format!("peak allocation {} bytes during one call after {} bytes of input in total (bound {} x received + 17 MiB)", peak, received, factor)));
            }
            Ok(v)
        }
    }
}

// ---- (a) deserializer token graph ------------------------------------------------------------

#[derive(Clone)]
struct DSt {
    de: ChunkDeserializer,
    received: usize,
}

#[derive(Clone, Debug)]
enum DAct {
    Token(usize),
    SetChunk(usize),
}

struct DG {
    tokens: Vec<(String, Vec<u8>)>,
    chunk_sizes: Vec<usize>,
    errors: AtomicU64,
    messages: AtomicU64,
}

fn build_tokens(thorough: bool) -> Vec<(String, Vec<u8>)> {
    let mut v = Vec::new();
    // quick: csid 3 with the full menu and csid 64 (2-byte form) for the large-length tokens, so that
    // two chunk streams can hold partial messages at the same time
    let csids: Vec<(u32, Vec<u8>)> = if thorough {
        vec![(3, vec![3]), (64, vec![0, 0]), (320, vec![1, 0, 1])]
    } else {
        vec![(3, vec![3]), (64, vec![0, 0])]
    };
    let fields: Vec<u32> = if thorough { vec![0, 1, 0xFF_FFFF] } else { vec![1, 0xFF_FFFF] };
    let exts: Vec<Option<u32>> = if thorough {
        vec![None, Some(5), Some(0xFF_FFFF), Some(0xFFFF_FFFF)]
    } else {
        vec![None, Some(5), Some(0xFFFF_FFFF)]
    };
    let lens: Vec<u32> = if thorough { vec![0, 1, 3, 129, 0xFF_FFFF] } else { vec![0, 2, 0xFF_FFFF] };
    let pays: Vec<usize> = vec![0, 1, 3];
    for (ci, (csid, basic)) in csids.iter().enumerate() {
        for fmt in 0..4u8 {
            for &f in fields.iter() {
                if ci > 0 && f != fields[0] && (!thorough || ci > 1) {
                    continue;
                }
                if fmt == 3 && f != fields[0] {
                    continue;
                }
                for &len in lens.iter() {
                    if fmt >= 2 && len != lens[0] {
                        continue;
                    }
                    for ext in exts.iter() {
                        for &pay in pays.iter() {
                            let mut b = basic.clone();
                            b[0] |= fmt << 6;
                            if fmt < 3 {
                                b.extend_from_slice(&f.to_be_bytes()[1..]);
                            }
                            if fmt < 2 {
                                b.extend_from_slice(&len.to_be_bytes()[1..]);
                                b.push(8);
                            }
                            if fmt == 0 {
                                b.extend_from_slice(&[1, 0, 0, 0]);
                            }
                            if let Some(x) = ext {
                                b.extend_from_slice(&x.to_be_bytes());
                            }
                            b.extend(std::iter::repeat(0xAB).take(pay));
                            v.push((format!("fmt{} csid{} field24={:#x} len={} ext={:?} payload_bytes={}", fmt, csid, f, len, ext, pay), b));
                        }
                    }
                }
            }
        }
    }
    v
}

impl Graph for DG {
    type State = DSt;
    type Action = DAct;
    fn actions(&self, _s: &DSt) -> Vec<DAct> {
        let mut v: Vec<DAct> = (0..self.tokens.len()).map(DAct::Token).collect();
        v.extend(self.chunk_sizes.iter().map(|n| DAct::SetChunk(*n)));
        v
    }
    fn step(&self, s: &DSt, a: &DAct) -> StepOut<DSt> {
        let mut out = StepOut::new();
        let mut n = s.clone();
        match a {
            DAct::SetChunk(size) => {
                out.impl_steps += 1;
                match probe("set_max_chunk_size", *size as u64, 0, n.received, 8, || n.de.set_max_chunk_size(*size).is_ok()) {
                    Err(e) => out.viol.push(e),
                    Ok(_) => out.succ.push(n),
                }
            }
            DAct::Token(i) => {
                let bytes = &self.tokens[*i].1;
                n.received += bytes.len();
                let mut input: &[u8] = bytes;
                let mut calls = 0;
                loop {
                    calls += 1;
                    out.impl_steps += 1;
                    let received = n.received;
                    let de = &mut n.de;
                    let r = probe("get_next_message", *i as u64, calls, received, 8, || de.get_next_message(input).map(|m| m.map(|p| p.data.len())).map_err(|e| format!("{:?}", e)));
                    input = &[];
                    match r {
                        Err((sig, d)) => {
                            out.viol.push((sig, format!("{} ; last token: {} = {}", d, self.tokens[*i].0, hex(bytes))));
                            return out;
                        }
                        Ok(Err(_)) => {
                            // an object that has reported an error is still a reachable state (callers may call
                            // again): three follow-up calls must return too; the path itself ends here
                            self.errors.fetch_add(1, Ordering::Relaxed);
                            for (k, follow) in [&[][..], &[0xC3u8][..], &[3u8, 0, 0, 0, 0, 0, 1, 8, 1, 0, 0, 0, 0xAA][..]].iter().enumerate() {
                                let mut c = n.de.clone();
                                out.impl_steps += 1;
                                let r = probe("get_next_message-after-an-error", *i as u64, k as u64, received + follow.len(), 8, || c.get_next_message(follow).is_ok());
                                if let Err((sig, d)) = r {
                                    out.viol.push((sig, format!("{} ; after the error reported for token {} = {}, a further call with {}", d, self.tokens[*i].0, hex(bytes), hex(follow))));
                                    return out;
                                }
                            }
                            return out;
                        }
                        Ok(Ok(None)) => break,
                        Ok(Ok(Some(_))) => {
                            self.messages.fetch_add(1, Ordering::Relaxed);
                        }
                    }
                    if calls as usize > bytes.len() + 8 {
                        out.viol.push(("C03/no-progress/get_next_message".into(), format!("more messages returned than bytes supplied; token {}", self.tokens[*i].0)));
                        return out;
                    }
                }
                out.succ.push(n);
            }
        }
        out
    }
    fn key(&self, s: &DSt) -> u128 {
        let mut v = Vec::new();
        s.de.verif_fingerprint(&mut v);
        hash128(&v)
    }
    fn describe(&self, a: &DAct) -> Value {
        match a {
            DAct::Token(i) => json!({"feed": hex(&self.tokens[*i].1), "meaning": self.tokens[*i].0}),
            DAct::SetChunk(n) => json!({"set_max_chunk_size": n}),
        }
    }
}

fn feed_all(de: &mut ChunkDeserializer, bytes: &[u8], what: &'static str, a: u64) -> Result<(), (String, String)> {
    let mut input: &[u8] = bytes;
    let mut calls = 0u64;
    loop {
        calls += 1;
        let r = probe(what, a, calls, bytes.len(), 8, || de.get_next_message(input).map(|m| m.is_some()).map_err(|_| ()))?;
        input = &[];
        match r {
            Ok(true) => {
                if calls as usize > bytes.len() + 8 {
                    return Err(("C03/no-progress/get_next_message".into(), "more messages than bytes".into()));
                }
            }
            _ => return Ok(()),
        }
    }
}

// ---- (b) message decoder ------------------------------------------------------------------------

fn amf_tokens() -> Vec<Vec<u8>> {
    vec![
        vec![0, 0x3F, 0xF0, 0, 0, 0, 0, 0, 0], vec![0, 0, 0], vec![1, 0], vec![1, 1], vec![1], vec![2, 0, 1, b'a'], vec![2, 0, 7, b'c', b'o', b'n', b'n', b'e', b'c', b't'],
        vec![2, 0xFF, 0xFF], vec![2, 0, 2, 0xC3, 0x28], vec![3], vec![0, 0, 9], vec![0, 1, b'a'], vec![0, 0], vec![5], vec![6], vec![8, 0, 0, 0, 1], vec![8, 0xFF],
        vec![10, 0, 0, 0, 2], vec![10, 0xFF, 0xFF, 0xFF, 0xFF], vec![10, 0], vec![9], vec![4], vec![0xFF], vec![11], vec![12, 0, 0, 0, 1, b'x'],
    ]
}

fn decode_body(type_id: u8, body: &[u8], ix: u64) -> Result<(), (String, String)> {
    let p = MessagePayload { timestamp: RtmpTimestamp::new(0), type_id, message_stream_id: 1, data: Bytes::from(body.to_vec()) };
    probe("to_rtmp_message", type_id as u64, ix, body.len(), 256, || p.to_rtmp_message().is_ok()).map(|_| ()).map_err(|(s, d)| (s, format!("{} ; type id {} body {}", d, type_id, hex(body))))
}

// ---- (c) sessions ---------------------------------------------------------------------------------

fn value_menu() -> Vec<V> {
    vec![num(1.0), V::Bool(true), s("x"), obj(vec![("app", s("a")), ("code", s("NetStream.Play.Start"))]), V::Arr(vec![num(1.0)]), V::Null, V::Undef,
        num(f64::NAN), num(-1.0), num(-0.0), num(f64::INFINITY), num(1e300), num(-2.0)]
}

/// Raw (msid, type id, body) messages no well-behaved peer sends.
fn malformed_menu(server: bool, thorough: bool) -> Vec<(u32, u8, Vec<u8>)> {
    let mut v: Vec<(u32, u8, Vec<u8>)> = Vec::new();
    let vals = value_menu();
    let enc = |vs: &[V]| r3::encode_seq(vs, &Default::default());
    let names: Vec<&str> = if server {
        vec!["connect", "createStream", "publish", "play", "closeStream", "deleteStream", "releaseStream"]
    } else {
        vec!["_result", "_error", "onStatus", "onBWDone"]
    };
    for name in names.iter() {
        // fewer than three values
        v.push((0, 20, enc(&[])));
        v.push((0, 20, enc(&[s(name)])));
        v.push((0, 20, enc(&[s(name), num(1.0)])));
        v.push((0, 20, enc(&[num(1.0), s(name), V::Null])));
        v.push((0, 20, enc(&[s(name), s("1"), V::Null])));
        for tx in [0.0f64, 1.0, 2.0, f64::NAN, -1.0, 1e300] {
            for object in [V::Null, obj(vec![]), obj(vec![("app", num(1.0))])] {
                v.push((1, 20, enc(&[s(name), num(tx), object.clone()])));
                for a in vals.iter() {
                    v.push((1, 20, enc(&[s(name), num(tx), object.clone(), a.clone()])));
                    if thorough || tx == 1.0 {
                        for b in vals.iter() {
                            v.push((1, 20, enc(&[s(name), num(tx), object.clone(), a.clone(), b.clone()])));
                        }
                    }
                }
            }
        }
        let mut b17 = vec![0u8];
        b17.extend(enc(&[s(name), num(1.0)]));
        v.push((0, 17, b17));
        v.push((0, 17, enc(&[s(name)])));
    }
    // data messages
    let first = if server { "@setDataFrame" } else { "onMetaData" };
    for t in [18u8, 15] {
        v.push((1, t, enc(&[])));
        v.push((1, t, enc(&[s(first)])));
        for a in vals.iter() {
            v.push((1, t, enc(&[s(first), a.clone()])));
            v.push((1, t, enc(&[a.clone()])));
            for b in vals.iter() {
                v.push((1, t, enc(&[s(first), a.clone(), b.clone()])));
                v.push((1, t, enc(&[s(first), s("onMetaData"), a.clone(), b.clone()])));
            }
        }
        v.push((1, t, vec![2, 0, 5, b'a']));
        v.push((1, t, vec![3, 0, 1]));
    }
    // user control: every event code with bodies of every length up to 10
    for code in 0..=40u16 {
        for l in 0..=10usize {
            let mut b = code.to_be_bytes().to_vec();
            b.extend(std::iter::repeat(0xFF).take(l));
            v.push((0, 4, b));
        }
    }
    v.push((0, 4, vec![]));
    v.push((0, 4, vec![0]));
    // fixed-layout control messages: short, long, extreme values
    for t in [1u8, 2, 3, 5, 6] {
        for body in [vec![], vec![0], vec![0, 0, 0], vec![0, 0, 0, 0], vec![0x80, 0, 0, 0], vec![0xFF; 4], vec![0, 0, 0, 1], vec![0xFF; 5], vec![0, 0, 0, 1, 9], vec![0; 9]] {
            v.push((0, t, body));
        }
    }
    // audio / video / unknown types
    for t in [8u8, 9, 0, 7, 10, 16, 19, 22, 255] {
        v.push((1, t, vec![]));
        v.push((1, t, vec![0xAF, 1, 2]));
    }
    // media bodies shorter than the two-byte FLV tag header a session may look at: every one-byte body, and
    // two-byte bodies for every codec nibble with each packet-type byte
    for t in [8u8, 9] {
        for b0 in 0..=255u8 {
            v.push((1, t, vec![b0]));
        }
        for b0 in [0x07u8, 0x17, 0x27, 0x57, 0x1C, 0xAF, 0xA0, 0x2F, 0x00, 0xFF] {
            for b1 in [0u8, 1, 2, 3, 0xFF] {
                v.push((1, t, vec![b0, b1]));
            }
        }
    }
    // metadata: every key the sessions map, with values of every kind (numbers of either sign and NaN, short and
    // empty strings, containers) - the mapping must return for all of them
    {
        let keys = ["width", "height", "videocodecid", "videodatarate", "framerate", "audiocodecid", "audiodatarate", "audiosamplerate", "audiochannels", "stereo", "encoder"];
        let vals: Vec<V> = vec![s("mp3"), s(""), s("avc1"), s("\u{e9}"), V::Null, V::Undef, V::Bool(true), num(f64::NAN), num(-1.0), num(1e300), num(4294967296.0), V::Obj(vec![]), V::Arr(vec![num(1.0)])];
        for k in keys.iter() {
            for val in vals.iter() {
                let o = V::Obj(vec![(k.to_string(), val.clone()), ("duration".into(), num(0.0))]);
                if server {
                    v.push((1, 18, enc(&[s("@setDataFrame"), s("onMetaData"), o.clone()])));
                } else {
                    v.push((1, 18, enc(&[s("onMetaData"), o.clone()])));
                }
            }
        }
    }
    // long non-ASCII text in every string position a session looks at (every fixed cut offset falls inside a
    // character in one of them): application names, stream keys, modes, status codes, metadata strings
    for text in super::amf0::straddlers() {
        let t = V::Str(text.clone());
        if server {
            v.push((0, 20, enc(&[s("connect"), num(1.0), V::Obj(vec![("app".into(), t.clone())])])));
            v.push((0, 20, enc(&[s("connect"), num(1.0), V::Obj(vec![("app".into(), s("a")), ("tcUrl".into(), t.clone()), ("flashVer".into(), t.clone())])])));
            v.push((1, 20, enc(&[s("publish"), num(0.0), V::Null, t.clone(), s("live")])));
            v.push((1, 20, enc(&[s("publish"), num(0.0), V::Null, s("k"), t.clone()])));
            v.push((1, 20, enc(&[s("play"), num(0.0), V::Null, t.clone()])));
            v.push((1, 20, enc(&[s("releaseStream"), num(2.0), V::Null, t.clone()])));
            v.push((1, 18, enc(&[s("@setDataFrame"), s("onMetaData"), V::Obj(vec![("encoder".into(), t.clone()), ("width".into(), num(1.0))])])));
            v.push((1, 18, enc(&[s("@setDataFrame"), t.clone(), V::Obj(vec![])])));
        } else {
            v.push((0, 20, enc(&[s("_result"), num(1.0), V::Null, V::Obj(vec![("description".into(), t.clone()), ("code".into(), t.clone())])])));
            v.push((1, 20, enc(&[s("onStatus"), num(0.0), V::Null, V::Obj(vec![("code".into(), t.clone())])])));
            v.push((1, 20, enc(&[s("onStatus"), num(0.0), V::Null, V::Obj(vec![("code".into(), s("NetStream.Play.Start")), ("description".into(), t.clone())])])));
            v.push((1, 18, enc(&[s("onMetaData"), V::Obj(vec![("encoder".into(), t.clone())])])));
            v.push((1, 20, enc(&[t.clone(), num(0.0), V::Null])));
        }
        // as a property NAME too
        if text.len() <= 65_535 {
            v.push((1, 18, enc(&[s(first), s("onMetaData"), V::Obj(vec![(text.clone(), num(1.0))])])));
        }
    }
    v
}

struct SG {
    menu: Vec<(u32, u8, Vec<u8>)>,
    probes: AtomicU64,
    errs: AtomicU64,
}

impl Graph for SG {
    type State = c09::St;
    type Action = SAct;
    fn actions(&self, s: &c09::St) -> Vec<SAct> {
        c09::actions_for(&s.model, 2, 2, false)
    }
    fn step(&self, s: &c09::St, a: &SAct) -> StepOut<c09::St> {
        let mut out = StepOut::new();
        // 1. every malformed message against a clone of this state (when first expanded)
        // (done in `probe_state`, called from the key-dedup'd expansion below)
        let mut n = s.clone();
        let fpb = n.h.fp_logic();
        let received = 4096usize;
        let h = &mut n.h;
        let o = match probe("server-session-step", 0, 0, received, 256, || h.step(a)) {
            Err(e) => {
                out.viol.push(e);
                return out;
            }
            Ok(o) => o,
        };
        out.impl_steps += 1;
        if let Some(p) = &o.panicked {
            out.viol.push((format!("C03/panic/server-session/{}", panic_class(p)), format!("{:?} panicked: {}", a, p)));
            return out;
        }
        let fpa = n.h.fp_logic();
        let outs = decode_with_lib(&mut n.peer_de, &o.packets).unwrap_or_default();
        if self.actions(s).first() == Some(a) {
            // malformed menu on the state being expanded (once per state)
            for (i, (msid, t, body)) in self.menu.iter().enumerate() {
                let mut c = s.clone();
                let act = SAct::Raw { msid: *msid, type_id: *t, body: body.clone() };
                let bytes = c.h.peer_bytes(&act).unwrap();
                let hh = &mut c.h;
                self.probes.fetch_add(1, Ordering::Relaxed);
                out.impl_steps += 1;
                match probe("server-handle_input", i as u64, *t as u64, bytes.len() + 4096, 256, || {
                    let mut o = Obs::empty();
                    hh.input(&bytes, &mut o);
                    o
                }) {
                    Err((sig, d)) => {
                        out.viol.push((sig, format!("{} ; after {:?} the peer sent type {} on stream {} body {}", d, a, t, msid, hex(body))));
                        return out;
                    }
                    Ok(o) => {
                        if let Some(p) = o.panicked {
                            let body_desc = r3::decode_seq(body).map(|v| format!("{:?}", v)).unwrap_or_else(|_| hex(body));
                            out.viol.push((format!("C03/panic/server-session/{}", panic_class(&p)), format!("handle_input panicked: {} ; message type {} on stream {} body {}", p, t, msid, body_desc)));
                            return out;
                        }
                        if o.err.is_some() {
                            self.errs.fetch_add(1, Ordering::Relaxed);
                        }
                        {
                            // latent damage: the malformed message was accepted, so the session must
                            // keep working - an empty call and a ping must return
                            let ping = c.h.peer_bytes(&SAct::Ping { ts: 7 }).unwrap();
                            let hh = &mut c.h;
                            out.impl_steps += 2;
                            let r = probe("server-handle_input-after-malformed", i as u64, *t as u64, bytes.len() + ping.len() + 4096, 256, || {
                                let mut o = Obs::empty();
                                hh.input(&[], &mut o);
                                if o.panicked.is_none() {
                                    hh.input(&ping, &mut o);
                                }
                                o
                            });
                            let p = match r {
                                Err((sig, d)) => Some((sig, d)),
                                Ok(o) => o.panicked.map(|p| (format!("C03/panic/server-session-after-accepted-message/{}", panic_class(&p)), format!("handle_input panicked: {}", p))),
                            };
                            if let Some((sig, d)) = p {
                                out.viol.push((sig, format!("{} ; after {:?} the peer sent type {} on stream {} body {} (accepted), then an empty call / a ping request", d, a, t, msid, hex(body))));
                                return out;
                            }
                        }
                    }
                }
            }
        }
        if n.model.check(a, &o, &outs, &fpb, &fpa).is_ok() {
            out.succ.push(n);
        }
        out
    }
    fn key(&self, s: &c09::St) -> u128 {
        let mut v = s.h.fp_logic();
        v.push(0xCC);
        s.model.fingerprint(&mut v);
        hash128(&v)
    }
    fn describe(&self, a: &SAct) -> Value {
        describe_sact(a)
    }
}

struct CG {
    menu: Vec<(u32, u8, Vec<u8>)>,
    probes: AtomicU64,
    errs: AtomicU64,
}

impl Graph for CG {
    type State = c10::St;
    type Action = CAct;
    fn actions(&self, s: &c10::St) -> Vec<CAct> {
        c10::actions_for(&s.model, 2, false)
    }
    fn step(&self, s: &c10::St, a: &CAct) -> StepOut<c10::St> {
        let mut out = StepOut::new();
        let mut n = s.clone();
        let fpb = n.h.fp_logic();
        let o = n.h.step(a);
        out.impl_steps += 1;
        if let Some(p) = &o.panicked {
            out.viol.push((format!("C03/panic/client-session/{}", panic_class(p)), format!("{:?} panicked: {}", a, p)));
            return out;
        }
        let fpa = n.h.fp_logic();
        let outs = decode_with_lib(&mut n.peer_de, &o.packets).unwrap_or_default();
        if self.actions(s).first() == Some(a) {
            for (i, (msid, t, body)) in self.menu.iter().enumerate() {
                let mut c = s.clone();
                let msid = if *msid == 1 { s.model.active.unwrap_or(1) } else { *msid };
                let act = CAct::Raw { msid, type_id: *t, body: body.clone() };
                let bytes = c.h.peer_bytes(&act).unwrap();
                let hh = &mut c.h;
                self.probes.fetch_add(1, Ordering::Relaxed);
                out.impl_steps += 1;
                match probe("client-handle_input", i as u64, *t as u64, bytes.len() + 4096, 256, || {
                    let mut o = Obs::empty();
                    hh.input(&bytes, &mut o);
                    o
                }) {
                    Err((sig, d)) => {
                        out.viol.push((sig, format!("{} ; after {:?} the server sent type {} body {}", d, a, t, hex(body))));
                        return out;
                    }
                    Ok(o) => {
                        if let Some(p) = o.panicked {
                            let body_desc = r3::decode_seq(body).map(|v| format!("{:?}", v)).unwrap_or_else(|_| hex(body));
                            out.viol.push((format!("C03/panic/client-session/{}", panic_class(&p)), format!("handle_input panicked: {} ; message type {} on stream {} body {}", p, t, msid, body_desc)));
                            return out;
                        }
                        if o.err.is_some() {
                            self.errs.fetch_add(1, Ordering::Relaxed);
                        }
                        {
                            let ping = c.h.peer_bytes(&CAct::Ping { ts: 7 }).unwrap();
                            let hh = &mut c.h;
                            out.impl_steps += 2;
                            let r = probe("client-handle_input-after-malformed", i as u64, *t as u64, bytes.len() + ping.len() + 4096, 256, || {
                                let mut o = Obs::empty();
                                hh.input(&[], &mut o);
                                if o.panicked.is_none() {
                                    hh.input(&ping, &mut o);
                                }
                                o
                            });
                            let p = match r {
                                Err((sig, d)) => Some((sig, d)),
                                Ok(o) => o.panicked.map(|p| (format!("C03/panic/client-session-after-accepted-message/{}", panic_class(&p)), format!("handle_input panicked: {}", p))),
                            };
                            if let Some((sig, d)) = p {
                                out.viol.push((sig, format!("{} ; after {:?} the server sent type {} body {} (accepted), then an empty call / a ping request", d, a, t, hex(body))));
                                return out;
                            }
                        }
                    }
                }
            }
        }
        if n.model.check(a, &o, &outs, &fpb, &fpa).is_ok() {
            out.succ.push(n);
        }
        out
    }
    fn key(&self, s: &c10::St) -> u128 {
        let mut v = s.h.fp_logic();
        v.push(0xCC);
        s.model.fingerprint(&mut v);
        hash128(&v)
    }
    fn describe(&self, a: &CAct) -> Value {
        describe_cact(a)
    }
}

// ---- driver -----------------------------------------------------------------------------------------

pub fn run(run: &Run) {
    let thorough = run.thorough();
    start_watchdog(if thorough { 20.0 } else { 10.0 });
    let (mut states, mut trans) = (0u64, 0u64);
    let only = std::env::var("VCHECK_C03_ONLY").unwrap_or_default();
    let want = |k: &str| only.is_empty() || only == k;

    // (a) token graph
    if want("a") {
        let g = DG { tokens: build_tokens(thorough), chunk_sizes: vec![0, 1, 2, 128, 0x7FFF_FFFF, 0x8000_0000], errors: AtomicU64::new(0), messages: AtomicU64::new(0) };
        let depth = 3;
        let opts = BfsOptions { max_depth: Some(depth), max_states: Some(if thorough { 1_500_000 } else { 400_000 }), ..Default::default() };
        let (stats, viols) = bfs(&g, vec![DSt { de: ChunkDeserializer::new(), received: 0 }], &opts);
        run.sample_paths("deserializer token graph", &stats.sample_paths);
        states += stats.states;
        trans += stats.transitions;
        for v in viols {
            run.violation(&v.signature, &v.detail, json!({"sub": "deserializer token graph", "ops": v.path}));
        }
        run.set("a_token_graph", json!({"tokens": g.tokens.len(), "depth": depth, "states": stats.states, "transitions": stats.transitions, "level_sizes": stats.level_sizes,
            "error_results": g.errors.load(Ordering::Relaxed), "messages_completed": g.messages.load(Ordering::Relaxed), "cap": stats.cap_hit}));
        run.count("a_token_graph_transitions", stats.transitions);
        run.count("a_token_graph_error_results", g.errors.load(Ordering::Relaxed));
        run.count("a_token_graph_messages_completed", g.messages.load(Ordering::Relaxed));
    }
    // (a') every short byte string, whole and bytewise
    if want("a2") {
        let maxlen = if thorough { 3 } else { 2 };
        let total: u64 = (1..=maxlen).map(|l| 256u64.pow(l)).sum();
        let n = AtomicU64::new(0);
        (0..total).into_par_iter().for_each(|mut ix| {
            let mut len = 1u32;
            while ix >= 256u64.pow(len) {
                ix -= 256u64.pow(len);
                len += 1;
            }
            let bytes: Vec<u8> = (0..len).map(|k| ((ix >> (8 * k)) & 0xFF) as u8).collect();
            // as the first bytes of a connection, and after one complete message on csid 3 / 64
            for prefix in 0..2 {
                let mut de = ChunkDeserializer::new();
                if prefix == 1 {
                    let _ = de.get_next_message(&[3, 0xFF, 0xFF, 0xFF, 0, 0, 1, 8, 1, 0, 0, 0, 1, 0, 0, 0, 0xAA]);
                    let _ = de.get_next_message(&[0, 0, 0, 0, 5, 0, 0, 1, 8, 1, 0, 0, 0, 0xAA]);
                }
                n.fetch_add(1, Ordering::Relaxed);
                if let Err((sig, d)) = feed_all(&mut de, &bytes, "get_next_message-short-string", ix) {
                    run.violation(&sig, &format!("{} ; bytes {} (prefix {})", d, hex(&bytes), prefix), json!({"sub": "short byte strings", "bytes": hex(&bytes), "after_valid_prefix": prefix == 1}));
                }
                // 4 more bytes appended (so that a header can complete)
                let mut longer = bytes.clone();
                longer.extend_from_slice(&[0, 0, 0, 5, 0xFF, 0xFF, 0xFF, 0xFF, 0, 0, 0, 0]);
                if let Err((sig, d)) = feed_all(&mut de.clone(), &longer[bytes.len()..], "get_next_message-short-string", ix) {
                    run.violation(&sig, &format!("{} ; bytes {} (prefix {})", d, hex(&longer), prefix), json!({"sub": "short byte strings", "bytes": hex(&longer), "after_valid_prefix": prefix == 1}));
                }
            }
        });
        run.count("a_short_byte_strings", n.load(Ordering::Relaxed));
        trans += n.load(Ordering::Relaxed);
    }
    // (a'') strings over a 12-symbol byte menu
    if want("a3") {
        let menu: [u8; 12] = [0x00, 0x01, 0x02, 0x03, 0x43, 0x83, 0xC3, 0xFF, 0x7F, 0x80, 0x08, 0x14];
        let maxlen: u32 = if thorough { 6 } else { 5 };
        let total: u64 = (1..=maxlen).map(|l| 12u64.pow(l)).sum();
        let n = AtomicU64::new(0);
        (0..total).into_par_iter().for_each(|mut ix| {
            let mut len = 1u32;
            while ix >= 12u64.pow(len) {
                ix -= 12u64.pow(len);
                len += 1;
            }
            let mut bytes = vec![3u8, 0xFF, 0xFF, 0xFF, 0, 0, 1, 8, 1, 0, 0, 0, 1, 0, 0, 0, 0xAA];
            let mut x = ix;
            for _ in 0..len {
                bytes.push(menu[(x % 12) as usize]);
                x /= 12;
            }
            let mut de = ChunkDeserializer::new();
            n.fetch_add(1, Ordering::Relaxed);
            if let Err((sig, d)) = feed_all(&mut de, &bytes, "get_next_message-menu-string", ix) {
                run.violation(&sig, &format!("{} ; bytes {}", d, hex(&bytes)), json!({"sub": "byte menu strings", "bytes": hex(&bytes)}));
            }
        });
        run.count("a_menu_strings", n.load(Ordering::Relaxed));
        trans += n.load(Ordering::Relaxed);
    }

    // (b) message decoder
    if want("b") {
        let n = AtomicU64::new(0);
        let toks = amf_tokens();
        let maxtok = if thorough { 4 } else { 3 };
        (0..=255u8).into_par_iter().for_each(|t| {
            let mut ix = 0u64;
            let mut check = |body: &[u8]| {
                ix += 1;
                n.fetch_add(1, Ordering::Relaxed);
                if let Err((sig, d)) = decode_body(t, body, ix) {
                    run.violation(&sig, &d, json!({"sub": "message decoder", "type_id": t, "body": hex(body)}));
                }
            };
            check(&[]);
            for a in 0..=255u8 {
                check(&[a]);
                if thorough {
                    for b in 0..=255u8 {
                        check(&[a, b]);
                    }
                } else {
                    for b in [0u8, 1, 2, 3, 9, 0xFF] {
                        check(&[a, b]);
                    }
                }
            }
            if [15u8, 17, 18, 20].contains(&t) {
                // every AMF0 marker byte followed by a maximal / large length or count field, bare and as the
                // fourth value of a command
                for m in 0..=255u8 {
                    for field in [&[0xFFu8, 0xFF, 0xFF, 0xFF][..], &[0x10, 0, 0, 0][..], &[0xFF, 0xFF][..], &[0, 0xFF, 0xFF, 0xFF][..]] {
                        let mut b: Vec<u8> = if t == 17 || t == 15 { vec![0] } else { vec![] };
                        b.push(m);
                        b.extend_from_slice(field);
                        b.extend_from_slice(b"abc");
                        check(&b);
                        let mut c: Vec<u8> = if t == 17 || t == 15 { vec![0] } else { vec![] };
                        c.extend_from_slice(&[2, 0, 1, b'x', 0, 0x3F, 0xF0, 0, 0, 0, 0, 0, 0, 5, m]);
                        c.extend_from_slice(field);
                        c.extend_from_slice(b"abc");
                        check(&c);
                    }
                }
            }
            for l in 3..=12usize {
                check(&vec![0u8; l]);
                check(&vec![0xFFu8; l]);
                let mut b = vec![0u8; l];
                b[1] = 3;
                check(&b);
            }
            if [15u8, 17, 18, 20].contains(&t) {
                // AMF0 token sequences incl. truncations
                let mut idx = vec![0usize; 0];
                for len in 1..=maxtok {
                    idx.clear();
                    idx.resize(len, 0);
                    loop {
                        let mut body: Vec<u8> = Vec::new();
                        for &i in idx.iter() {
                            body.extend_from_slice(&toks[i]);
                        }
                        check(&body);
                        if t == 17 {
                            let mut b0 = vec![0u8];
                            b0.extend_from_slice(&body);
                            check(&b0);
                        }
                        let mut p = 0;
                        loop {
                            if p == len {
                                break;
                            }
                            idx[p] += 1;
                            if idx[p] < toks.len() {
                                break;
                            }
                            idx[p] = 0;
                            p += 1;
                        }
                        if p == len {
                            break;
                        }
                    }
                }
            }
        });
        run.count("b_message_bodies", n.load(Ordering::Relaxed));
        trans += n.load(Ordering::Relaxed);
    }

    // (c) sessions
    if want("c") {
        let g = SG { menu: malformed_menu(true, thorough), probes: AtomicU64::new(0), errs: AtomicU64::new(0) };
        let opts = BfsOptions { max_depth: Some(if thorough { 8 } else { 6 }), max_states: Some(if thorough { 20_000 } else { 1_500 }), ..Default::default() };
        let (stats, viols) = bfs(&g, vec![c09::fresh_state()], &opts);
        run.sample_paths("server session states probed with the malformed menu", &stats.sample_paths);
        states += stats.states;
        trans += stats.transitions + g.probes.load(Ordering::Relaxed);
        for v in viols {
            run.violation(&v.signature, &v.detail, json!({"sub": "server session x malformed menu", "ops": v.path}));
        }
        run.set("c_server", json!({"menu": g.menu.len(), "states": stats.states, "transitions": stats.transitions, "malformed_probes": g.probes.load(Ordering::Relaxed), "probes_answered_with_err": g.errs.load(Ordering::Relaxed)}));
        run.count("c_server_malformed_probes", g.probes.load(Ordering::Relaxed));
        run.count("c_server_states", stats.states);

        let g = CG { menu: malformed_menu(false, thorough), probes: AtomicU64::new(0), errs: AtomicU64::new(0) };
        let opts = BfsOptions { max_depth: Some(if thorough { 10 } else { 7 }), max_states: Some(if thorough { 20_000 } else { 1_500 }), ..Default::default() };
        let (stats, viols) = bfs(&g, vec![c10::fresh_state()], &opts);
        run.sample_paths("client session states probed with the malformed menu", &stats.sample_paths);
        states += stats.states;
        trans += stats.transitions + g.probes.load(Ordering::Relaxed);
        for v in viols {
            run.violation(&v.signature, &v.detail, json!({"sub": "client session x malformed menu", "ops": v.path}));
        }
        run.set("c_client", json!({"menu": g.menu.len(), "states": stats.states, "transitions": stats.transitions, "malformed_probes": g.probes.load(Ordering::Relaxed), "probes_answered_with_err": g.errs.load(Ordering::Relaxed)}));
        run.count("c_client_malformed_probes", g.probes.load(Ordering::Relaxed));
        run.count("c_client_states", stats.states);
    }

    // (d) handshake
    if want("d") {
        let n = AtomicU64::new(0);
        let roles = [PeerType::Server, PeerType::Client];
        (0..2usize).into_par_iter().for_each(|ri| {
            let mk = || Handshake::new(if ri == 0 { PeerType::Server } else { PeerType::Client });
            let _ = &roles;
            let try_bytes = |bytes: &[u8], label: &str| {
                for mode in 0..3 {
                    let mut h = mk();
                    let pieces: Vec<&[u8]> = match mode {
                        0 => vec![bytes],
                        1 => bytes.chunks(1).collect(),
                        _ => bytes.chunks(1535).collect(),
                    };
                    if mode == 1 && bytes.len() > 3200 {
                        continue;
                    }
                    let mut fed = 0usize;
                    for p in pieces {
                        fed += p.len();
                        n.fetch_add(1, Ordering::Relaxed);
                        let hh = &mut h;
                        match probe("handshake-process_bytes", ri as u64, fed as u64, fed, 8, || hh.process_bytes(p).is_ok()) {
                            Err((sig, d)) => {
                                run.violation(&sig, &format!("{} ; {} after {} bytes", d, label, fed), json!({"sub": "handshake", "role": ri, "input": label, "fed": fed}));
                                return;
                            }
                            Ok(false) => break,
                            Ok(true) => {}
                        }
                    }
                }
            };
            for v in 0..=255u8 {
                try_bytes(&[v], "version byte");
                let mut b = vec![v];
                b.extend(std::iter::repeat(v).take(1536));
                try_bytes(&b, "version byte + constant packet 1");
            }
            for sum in (0..=1020usize).step_by(if thorough { 1 } else { 3 }) {
                for ptr in [8usize, 772] {
                    let mut p1 = vec![0x5Au8; 1536];
                    let mut rest = sum;
                    for i in 0..4 {
                        let t = rest.min(255);
                        p1[ptr + i] = t as u8;
                        rest -= t;
                    }
                    let mut b = vec![3u8];
                    b.extend_from_slice(&p1);
                    b.extend(std::iter::repeat(0xA5).take(1536));
                    b.extend_from_slice(&[1, 2, 3]);
                    try_bytes(&b, "packet 1 with pointer-byte sum at both pointer positions + arbitrary packet 2 + trailing bytes");
                }
            }
            let big = vec![3u8; 10_000];
            try_bytes(&big, "10000 bytes of 0x03");
        });
        run.count("d_handshake_calls", n.load(Ordering::Relaxed));
        trans += n.load(Ordering::Relaxed);
    }

    run.set("states", json!(states.max(1)));
    run.set("transitions", json!(trans));
    run.set("traces_validated_against_impl", json!(CALLS.load(Ordering::Relaxed)));
    run.set("evaluations", json!(CALLS.load(Ordering::Relaxed)));
    run.set("distinct_nontrivial", json!(trans));
    run.set("rule", json!("evaluations = guarded calls into the library (each with panic capture, allocation accounting and a watchdog); distinct = distinct (state, input) pairs: token-graph edges, byte strings, (type id, body) pairs, (session state, malformed message) pairs, handshake inputs"));
    run.set("exhaustive", json!(false));
    run.set("memory_bound", json!("peak live allocation during one call <= factor x bytes received + 17 MiB; factor 8 at chunk/handshake level, 256 where AMF0 values are materialised"));
    run.sample(json!({"sub": "deserializer token graph", "ops": [{"feed": "03000001000002080100000000ab", "meaning": "fmt0 csid3 len 2 + 1 payload byte"}, {"feed": "83ffffff00000005", "meaning": "fmt2 with extended field below 0xFFFFFF"}]}));
    run.sample(json!({"sub": "server session x malformed menu", "message": "type 20 body [\"connect\"] (fewer than three AMF0 values)"}));
    run.assume("an Err result ends the connection: states after an error are not explored further");
    run.assume("AMF0 nesting depth is small here; unbounded nesting is C14");
    if run.violation_count() == 0 {
        run.require_hist(&["a_token_graph_transitions", "a_token_graph_error_results", "a_token_graph_messages_completed", "a_short_byte_strings", "a_menu_strings", "b_message_bodies", "c_server_malformed_probes", "c_client_malformed_probes", "d_handshake_calls"]);
    }
}
