//! C06 — the real ChunkDeserializer against every stream a specification-conformant foreign
//! sender can produce: product graph (R1 encoder with free header choices) x (real deserializer).

use crate::bfs::{bfs, BfsOptions, Graph, StepOut};
use crate::counters::Counters;
use crate::ev::Run;
use crate::refmodel::chunk::{Msg, SpecEncoder};
use crate::util::{guarded, hash128, hex, pattern};
use rml_rtmp::chunk_io::ChunkDeserializer;
use serde_json::{json, Value};

#[derive(Clone)]
pub struct St {
    enc: SpecEncoder,
    de: ChunkDeserializer,
}

#[derive(Clone, Debug)]
pub struct Act {
    csid: u32,
    form: u8,
    fmt: u8,
    ty: u8,
    msid: u32,
    ts: u32,
    len: usize,
}

#[derive(Clone, Debug)]
pub struct Slice {
    pub name: &'static str,
    pub csids: Vec<(u32, u8)>,
    pub types: Vec<u8>,
    pub msids: Vec<u32>,
    pub tss: Vec<u32>,
    pub lens: Vec<usize>,
    pub setchunks: Vec<u32>,
    pub init_chunk: u32,
}

const NAMES: [&str; 12] = [
    "fmt0", "fmt1", "fmt2", "fmt3_new_message", "ext_first_chunk", "ext_continuation_chunk",
    "multi_chunk", "zero_length", "csid_form1", "csid_form2", "csid_form3", "set_chunk_size",
];

pub struct G {
    slice: Slice,
    c: Counters,
}

fn payload_for(a: &Act) -> Vec<u8> {
    if a.ty == 1 {
        return (a.len as u32).to_be_bytes().to_vec();
    }
    if a.ty == 2 && a.len == 4 {
        // an Abort message: its body names a chunk stream id (the timestamp doubles as that id here)
        return a.ts.to_be_bytes().to_vec();
    }
    let tag = (a.ty as u32).wrapping_mul(31).wrapping_add(a.msid.wrapping_mul(0x9E3779B1)).wrapping_add(a.ts.wrapping_mul(0x85EBCA6B)).wrapping_add(a.csid);
    pattern(tag, a.len)
}

pub fn deliver(
    de: &ChunkDeserializer,
    pieces: &[&[u8]],
    exp: &Msg,
    steps: &mut u64,
) -> Result<ChunkDeserializer, (String, String)> {
    let mut d = de.clone();
    let last = pieces.len() - 1;
    for (i, p) in pieces.iter().enumerate() {
        *steps += 1;
        let r = match guarded(|| d.get_next_message(p)) {
            Err(panic) => return Err(("panic".into(), format!("deserializer panicked: {}", panic))),
            Ok(Err(e)) => return Err(("error".into(), format!("deserializer returned error: {:?}", e))),
            Ok(Ok(r)) => r,
        };
        if i < last {
            if r.is_some() {
                return Err(("early".into(), "a message was returned before all its bytes were delivered".into()));
            }
        } else {
            match r {
                None => return Err(("missing".into(), "no message returned after all bytes were delivered".into())),
                Some(m) => {
                    if m.type_id != exp.type_id {
                        return Err(("field-type".into(), format!("type {} != {}", m.type_id, exp.type_id)));
                    }
                    if m.message_stream_id != exp.msid {
                        return Err(("field-msid".into(), format!("message stream id {} != {}", m.message_stream_id, exp.msid)));
                    }
                    if m.timestamp.value != exp.ts {
                        return Err(("field-timestamp".into(), format!("timestamp {} != {}", m.timestamp.value, exp.ts)));
                    }
                    if &m.data[..] != &exp.payload[..] {
                        return Err(("field-payload".into(), format!("payload differs: got {} bytes, expected {}", m.data.len(), exp.payload.len())));
                    }
                    if exp.type_id == 1 && exp.payload.len() >= 4 {
                        let n = u32::from_be_bytes([exp.payload[0], exp.payload[1], exp.payload[2], exp.payload[3]]);
                        if let Err(e) = d.set_max_chunk_size(n as usize) {
                            return Err(("setchunk".into(), format!("deserializer refused chunk size {}: {:?}", n, e)));
                        }
                    }
                }
            }
        }
    }
    *steps += 1;
    match guarded(|| d.get_next_message(&[])) {
        Err(panic) => Err(("panic".into(), format!("deserializer panicked on empty input: {}", panic))),
        Ok(Err(e)) => Err(("error".into(), format!("error on empty input: {:?}", e))),
        Ok(Ok(Some(_))) => Err(("extra".into(), "an extra message was returned".into())),
        Ok(Ok(None)) => Ok(d),
    }
}

impl Graph for G {
    type State = St;
    type Action = Act;

    fn actions(&self, s: &St) -> Vec<Act> {
        let sl = &self.slice;
        let mut v = Vec::new();
        for &n in sl.setchunks.iter() {
            let m = Msg { type_id: 1, msid: 0, ts: 0, payload: n.to_be_bytes().to_vec() };
            for fmt in s.enc.legal_fmts(2, &m) {
                v.push(Act { csid: 2, form: 1, fmt, ty: 1, msid: 0, ts: 0, len: n as usize });
            }
        }
        for &(csid, form) in sl.csids.iter() {
            for &ty in sl.types.iter() {
                for &msid in sl.msids.iter() {
                    for &ts in sl.tss.iter() {
                        for &len in sl.lens.iter() {
                            let probe = Msg { type_id: ty, msid, ts, payload: vec![0; len] };
                            for fmt in s.enc.legal_fmts(csid, &probe) {
                                v.push(Act { csid, form, fmt, ty, msid, ts, len });
                            }
                        }
                    }
                }
            }
        }
        v
    }

    fn step(&self, s: &St, a: &Act) -> StepOut<St> {
        let mut out = StepOut::new();
        let exp = Msg { type_id: a.ty, msid: a.msid, ts: a.ts, payload: payload_for(a) };
        let mut enc = s.enc.clone();
        let chunks = enc.encode(a.csid, a.form, a.fmt, &exp);
        let c = &self.c;
        c.inc(a.fmt as usize);
        c.inc(7 + a.form as usize);
        if a.ty == 1 {
            c.inc(11);
        }
        if exp.payload.is_empty() {
            c.inc(7);
        }
        if chunks.len() > 1 {
            c.inc(6);
        }
        let ext = enc.per.get(&a.csid).map(|x| x.ext).unwrap_or(false);
        if ext {
            c.inc(4);
            if chunks.len() > 1 {
                c.inc(5);
            }
        }
        let bytes: Vec<u8> = chunks.concat();
        let mut succ: Vec<ChunkDeserializer> = Vec::new();
        let whole: Vec<&[u8]> = vec![&bytes[..]];
        // one byte per call (streams above 4 KiB: 997 bytes per call, a size that divides no chunk size used here)
        let bytewise: Vec<&[u8]> = bytes.chunks(if bytes.len() <= 4096 { 1 } else { 997 }).collect();
        let per_chunk: Vec<&[u8]> = chunks.iter().map(|c| &c[..]).collect();
        let mut modes: Vec<(&str, Vec<&[u8]>)> = vec![("whole", whole), ("bytewise", bytewise), ("chunkwise", per_chunk)];
        if bytes.len() <= 40 {
            for p in 1..bytes.len() {
                modes.push(("cut", vec![&bytes[..p], &bytes[p..]]));
            }
        }
        for (name, pieces) in modes {
            match deliver(&s.de, &pieces, &exp, &mut out.impl_steps) {
                Ok(d) => succ.push(d),
                Err((cls, detail)) => {
                    out.viol.push((
                        format!("C06/{}/fmt{}/form{}{}", cls, a.fmt, a.form, if ext { "/ext" } else { "" }),
                        format!("{} delivery: {} ; csid {} fmt {} stream bytes {}", name, detail, a.csid, a.fmt, hex(&bytes)),
                    ));
                    return out;
                }
            }
        }
        let mut seen: Vec<u128> = Vec::new();
        for d in succ {
            let mut v = Vec::new();
            d.verif_fingerprint(&mut v);
            let h = hash128(&v);
            if !seen.contains(&h) {
                seen.push(h);
                out.succ.push(St { enc: enc.clone(), de: d });
            }
        }
        out
    }

    fn key(&self, s: &St) -> u128 {
        let mut v = Vec::new();
        s.enc.fingerprint(&mut v);
        v.push(0xEE);
        s.de.verif_fingerprint(&mut v);
        hash128(&v)
    }

    fn describe(&self, a: &Act) -> Value {
        json!({"csid": a.csid, "csid_form_bytes": a.form, "fmt": a.fmt, "type_id": a.ty, "message_stream_id": a.msid,
               "timestamp": a.ts, "payload_len_or_chunk_size": a.len})
    }
}

const TS13: [u32; 13] = [0, 1, 2, 0xFF_FFFE, 0xFF_FFFF, 0x100_0000, 0x1FF_FFFE, 0x200_0000, 0x300_0000, 0x7FFF_FFFF, 0x8000_0000, 0xFFFF_FFFE, 0xFFFF_FFFF];
const TS10: [u32; 10] = [0, 1, 2, 0xFF_FFFE, 0xFF_FFFF, 0x100_0000, 0x1FF_FFFE, 0x200_0000, 0xFFFF_FFFE, 0xFFFF_FFFF];

fn slices(thorough: bool) -> Vec<Slice> {
    let mut v = Vec::new();
    if !thorough {
        v.push(Slice { name: "csid 3 (1-byte form), all header choices, timestamps around 2^24 and 2^32, chunk size 2",
            csids: vec![(3, 1)], types: vec![8, 9], msids: vec![1, 2], tss: TS10.to_vec(), lens: vec![0, 1, 3, 5], setchunks: vec![], init_chunk: 2 });
        v.push(Slice { name: "csids 64 and 319 in 2-byte and 3-byte form, 320 and 65599 in 3-byte form",
            csids: vec![(64, 2), (319, 3), (65599, 3)], types: vec![9], msids: vec![1], tss: vec![0, 1, 0x100_0000, 0x200_0000], lens: vec![0, 3], setchunks: vec![], init_chunk: 2 });
        v.push(Slice { name: "in-band chunk size changes, csid 4",
            csids: vec![(4, 1)], types: vec![8], msids: vec![1], tss: vec![0, 1, 0x100_0000], lens: vec![0, 1, 129, 257], setchunks: vec![1, 2, 128, 4096], init_chunk: 128 });
        v.push(Slice { name: "csid 65 written in its 2-byte and its 3-byte form, csid 320 (its length bytes are those of 65 swapped)",
            csids: vec![(65, 2), (65, 3), (320, 3)], types: vec![9], msids: vec![1], tss: vec![0, 1, 2], lens: vec![1, 3], setchunks: vec![], init_chunk: 2 });
        v.push(Slice { name: "large chunks (4,097 / 70,000), multi-chunk messages, csid 5",
            csids: vec![(5, 1)], types: vec![9], msids: vec![1], tss: vec![0, 40], lens: vec![0, 12_000, 150_000], setchunks: vec![4_097, 70_000, 0x7FFF_FFFF], init_chunk: 128 });
    } else {
        v.push(Slice { name: "csid 3 (1-byte form), all header choices, all timestamps, chunk size 2",
            csids: vec![(3, 1)], types: vec![8, 9], msids: vec![1, 2, 0xFFFF_FFFF], tss: TS13.to_vec(), lens: vec![0, 1, 2, 3, 5], setchunks: vec![], init_chunk: 2 });
        v.push(Slice { name: "csid 63/64 boundary (1-byte and 2-byte forms)",
            csids: vec![(63, 1), (64, 2)], types: vec![9], msids: vec![1, 2], tss: vec![0, 1, 0xFF_FFFF, 0x100_0000], lens: vec![0, 3], setchunks: vec![], init_chunk: 2 });
        v.push(Slice { name: "csid 64/319 in 3-byte form, 319/320 boundary, 65599",
            csids: vec![(64, 3), (319, 2), (320, 3), (65599, 3)], types: vec![9], msids: vec![1], tss: vec![0, 1, 0xFF_FFFF], lens: vec![0, 3], setchunks: vec![], init_chunk: 2 });
        v.push(Slice { name: "csids 65535/65536/65599 (3-byte form high range), csid 2",
            csids: vec![(65535, 3), (65536, 3), (2, 1)], types: vec![8], msids: vec![1], tss: vec![0, 1, 0xFF_FFFF], lens: vec![0, 3], setchunks: vec![], init_chunk: 2 });
        v.push(Slice { name: "in-band chunk size changes, csid 4",
            csids: vec![(4, 1)], types: vec![8], msids: vec![1], tss: vec![0, 1, 0x100_0000, 0x200_0000], lens: vec![0, 1, 127, 128, 129, 257, 4097], setchunks: vec![1, 2, 128, 4096, 65536, 0x7FFF_FFFF], init_chunk: 128 });
        v.push(Slice { name: "csids 65/66/319 written in 2-byte and 3-byte form, csids 320/576 (length bytes swapped)",
            csids: vec![(65, 2), (65, 3), (320, 3), (66, 2), (576, 3), (319, 2), (319, 3)], types: vec![9], msids: vec![1], tss: vec![0, 1, 2], lens: vec![1, 3], setchunks: vec![], init_chunk: 2 });
        v.push(Slice { name: "large chunks (4,097 / 5,000 / 70,000), multi-chunk messages, csid 5",
            csids: vec![(5, 1)], types: vec![9], msids: vec![1], tss: vec![0, 40], lens: vec![0, 4_097, 12_000, 150_000], setchunks: vec![4_097, 5_000, 70_000, 0x7FFF_FFFF], init_chunk: 128 });
    }
    v
}

pub fn run(run: &Run) {
    let thorough = run.thorough();
    let agg = Counters::new(&NAMES);
    let (mut ts, mut tt, mut ti) = (0u64, 0u64, 0u64);
    let mut reports = Vec::new();
    let mut all_fix = true;
    for sl in slices(thorough) {
        let g = G { slice: sl.clone(), c: Counters::new(&NAMES) };
        let mut init = St { enc: SpecEncoder::new(), de: ChunkDeserializer::new() };
        if sl.init_chunk != 128 {
            // announce the chunk size in-band first (csid 2, fmt 0)
            let a = Act { csid: 2, form: 1, fmt: 0, ty: 1, msid: 0, ts: 0, len: sl.init_chunk as usize };
            let o = g.step(&init, &a);
            if let Some((sig, d)) = o.viol.first() {
                run.violation(sig, d, json!({"slice": sl.name, "ops": [g.describe(&a)]}));
                continue;
            }
            init = o.succ.into_iter().next().unwrap();
        }
        let opts = BfsOptions { max_states: Some(if thorough { 20_000_000 } else { 2_000_000 }), ..Default::default() };
        let (stats, viols) = bfs(&g, vec![init], &opts);
        run.sample_paths(sl.name, &stats.sample_paths);
        ts += stats.states;
        tt += stats.transitions;
        ti += stats.impl_steps;
        if !stats.fixpoint {
            all_fix = false;
            if let Some(ref c) = stats.cap_hit {
                run.cap_hit(&format!("slice '{}': {}", sl.name, c));
            }
        }
        for v in viols {
            run.violation(&v.signature, &v.detail, json!({"slice": sl.name, "init_chunk_size": sl.init_chunk, "ops": v.path}));
        }
        for i in 0..NAMES.len() {
            agg.add(i, g.c.get(i));
        }
        reports.push(json!({"slice": sl.name, "states": stats.states, "transitions": stats.transitions, "max_depth": stats.max_depth,
            "fixpoint": stats.fixpoint, "level_sizes": stats.level_sizes,
            "alphabet": {"csids_and_forms": sl.csids, "types": sl.types, "msids": sl.msids, "timestamps": sl.tss, "payload_lens": sl.lens, "set_chunk_sizes": sl.setchunks}}));
    }
    // every message type id on one chunk stream: fmt 0, then fmt 1 with another type, fmt 1 back, fmt 2, fmt 3
    {
        let sl = Slice { name: "all type ids, csid 3", csids: vec![(3, 1)], types: vec![], msids: vec![1], tss: vec![], lens: vec![], setchunks: vec![], init_chunk: 2 };
        let g = G { slice: sl.clone(), c: Counters::new(&NAMES) };
        let init0 = St { enc: SpecEncoder::new(), de: ChunkDeserializer::new() };
        let a0 = Act { csid: 2, form: 1, fmt: 0, ty: 1, msid: 0, ts: 0, len: 2 };
        if let Some(init) = g.step(&init0, &a0).succ.into_iter().next() {
            let mut scripts = 0u64;
            for t in 0..=255u8 {
                if t == 1 {
                    continue;
                }
                for partner in [t.wrapping_add(1), 20, 2] {
                    if partner == 1 || partner == t {
                        continue;
                    }
                    let script = vec![
                        Act { csid: 3, form: 1, fmt: 0, ty: t, msid: 1, ts: 0, len: 3 },
                        Act { csid: 3, form: 1, fmt: 1, ty: partner, msid: 1, ts: 5, len: 3 },
                        Act { csid: 3, form: 1, fmt: 1, ty: t, msid: 1, ts: 10, len: 3 },
                        Act { csid: 3, form: 1, fmt: 2, ty: t, msid: 1, ts: 15, len: 3 },
                        Act { csid: 3, form: 1, fmt: 3, ty: t, msid: 1, ts: 20, len: 3 },
                    ];
                    let mut cur = init.clone();
                    let mut done: Vec<Value> = vec![g.describe(&a0)];
                    for a in script.iter() {
                        let o = g.step(&cur, a);
                        ti += o.impl_steps;
                        tt += 1;
                        done.push(g.describe(a));
                        if let Some((sig, d)) = o.viol.into_iter().next() {
                            run.violation(&sig, &d, json!({"slice": sl.name, "ops": done}));
                            break;
                        }
                        cur = match o.succ.into_iter().next() {
                            Some(x) => x,
                            None => break,
                        };
                    }
                    scripts += 1;
                }
            }
            run.count("type_id_scripts", scripts);
        }
    }
    // Abort messages naming chunk streams that are in use (no message is in flight on them: sequential sending), on
    // another chunk stream and on the named one itself; the named stream then continues with compressed headers
    {
        let sl = Slice { name: "abort messages naming idle chunk streams", csids: vec![], types: vec![], msids: vec![1], tss: vec![], lens: vec![], setchunks: vec![], init_chunk: 128 };
        let g = G { slice: sl.clone(), c: Counters::new(&NAMES) };
        let mut scripts = 0u64;
        for (x, form) in [(6u32, 1u8), (64, 2), (320, 3)] {
            for abort_on in [2u32, x] {
                for follow in [1u8, 2, 3] {
                    let mut script = vec![
                        Act { csid: x, form, fmt: 0, ty: 9, msid: 1, ts: 100, len: 3 },
                        Act { csid: x, form, fmt: 1, ty: 9, msid: 1, ts: 110, len: 3 },
                    ];
                    // the abort (type 2, message stream 0) names x
                    let first_on_2 = abort_on == 2;
                    script.push(Act { csid: abort_on, form: if abort_on == 2 { 1 } else { form }, fmt: if first_on_2 { 0 } else { 0 }, ty: 2, msid: 0, ts: x, len: 4 });
                    if abort_on == x {
                        // back to the media message stream: needs a full header
                        script.push(Act { csid: x, form, fmt: 0, ty: 9, msid: 1, ts: 120, len: 3 });
                        script.push(Act { csid: x, form, fmt: 1, ty: 9, msid: 1, ts: 130, len: 3 });
                    }
                    let base = if abort_on == x { 130 } else { 110 };
                    match follow {
                        1 => script.push(Act { csid: x, form, fmt: 1, ty: 9, msid: 1, ts: base + 10, len: 5 }),
                        2 => script.push(Act { csid: x, form, fmt: 2, ty: 9, msid: 1, ts: base + 10, len: 3 }),
                        _ => script.push(Act { csid: x, form, fmt: 3, ty: 9, msid: 1, ts: base + 10, len: 3 }),
                    }
                    let mut cur = St { enc: SpecEncoder::new(), de: ChunkDeserializer::new() };
                    let mut done: Vec<Value> = Vec::new();
                    for a in script.iter() {
                        let o = g.step(&cur, a);
                        ti += o.impl_steps;
                        tt += 1;
                        done.push(g.describe(a));
                        if let Some((sig, d)) = o.viol.into_iter().next() {
                            run.violation(&format!("{}/after-an-abort-message", sig), &d, json!({"slice": sl.name, "ops": done}));
                            break;
                        }
                        cur = match o.succ.into_iter().next() {
                            Some(x) => x,
                            None => break,
                        };
                    }
                    scripts += 1;
                }
            }
        }
        run.count("abort_message_scripts", scripts);
    }
    // long histories over many chunk stream ids: a message on each of N distinct csids, then compressed headers
    // (fmt 1, 2, 3) on early, middle and late ones (per-connection tables that are bounded or pruned)
    {
        let sl = Slice { name: "many chunk stream ids", csids: vec![], types: vec![], msids: vec![1], tss: vec![], lens: vec![], setchunks: vec![], init_chunk: 128 };
        let g = G { slice: sl.clone(), c: Counters::new(&NAMES) };
        let mut scripts = 0u64;
        for n in [17u32, 64, 257, 300, 1000, 5000] {
            let form_of = |c: u32| -> u8 { if c <= 63 { 1 } else if c <= 319 { 2 } else { 3 } };
            let mut cur = St { enc: SpecEncoder::new(), de: ChunkDeserializer::new() };
            let mut ok = true;
            let mut done: Vec<Value> = Vec::new();
            let mut script: Vec<Act> = (2..2 + n).map(|c| Act { csid: c, form: form_of(c), fmt: 0, ty: 9, msid: 1, ts: 1000 + c, len: 3 }).collect();
            for &c in [2u32, 3, 2 + n / 2, 2 + n - 2, 2 + n - 1].iter() {
                script.push(Act { csid: c, form: form_of(c), fmt: 1, ty: 9, msid: 1, ts: 1000 + c + 7, len: 4 });
                script.push(Act { csid: c, form: form_of(c), fmt: 2, ty: 9, msid: 1, ts: 1000 + c + 14, len: 4 });
                script.push(Act { csid: c, form: form_of(c), fmt: 3, ty: 9, msid: 1, ts: 1000 + c + 21, len: 4 });
            }
            for a in script.iter() {
                let o = g.step(&cur, a);
                ti += o.impl_steps;
                tt += 1;
                if done.len() < 40 {
                    done.push(g.describe(a));
                }
                if let Some((sig, d)) = o.viol.into_iter().next() {
                    run.violation(&format!("{}/after-{}-chunk-streams", sig, n), &d, json!({"slice": sl.name, "distinct_csids_first": n, "first_ops": done, "failing_op": g.describe(a)}));
                    ok = false;
                    break;
                }
                cur = match o.succ.into_iter().next() {
                    Some(x) => x,
                    None => break,
                };
            }
            if ok {
                scripts += 1;
            }
        }
        run.count("many_csid_scripts", scripts);
    }
    run.merge_hist(&agg.map());
    run.set("states", json!(ts));
    run.set("transitions", json!(tt));
    run.set("traces_validated_against_impl", json!(ti));
    run.set("slices", json!(reports));
    run.set("exhaustive", json!(all_fix));
    run.set("explanation", json!("state = (reference encoder per-csid state, live ChunkDeserializer); an action picks csid + basic-header form + any header format the specification permits at that point (fmt 1 needs equal message stream id and a forward delta, fmt 2 also equal length/type, fmt 3 also an equal delta) and the message fields; every edge is delivered whole, one byte per call, one chunk per call and (<= 40 bytes) at every 2-way cut; closed slices cover every finite sequence over their alphabet"));
    run.sample(json!({"ops": [{"csid": 3, "fmt": 0, "type_id": 9, "timestamp": 16777215, "payload_len": 5}, {"csid": 3, "fmt": 3, "type_id": 9, "timestamp": 33554430, "payload_len": 5}],
        "check": "decoded (type, msid, timestamp mod 2^32, payload) equals what the reference encoder sent"}));
    run.assume("the reference encoder R1 is a faithful reading of RTMP 1.0 section 5.3.1 (unit-tested against hand-computed byte vectors); continuation chunks repeat the extended timestamp of the first chunk");
    run.assume("128-bit state hashes do not collide; fingerprints list every deserializer field");
    if run.violation_count() == 0 {
        run.require_hist(&["fmt0", "fmt1", "fmt2", "fmt3_new_message", "ext_first_chunk", "ext_continuation_chunk", "multi_chunk", "zero_length", "csid_form2", "csid_form3", "set_chunk_size"]);
    }
}
