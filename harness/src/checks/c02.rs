//! C02 — client and server sessions interoperate: media arrives byte-exact and tagged.
//! E2: deviation-bounded exploration of the closed system {real ClientSession, real ServerSession,
//! two FIFO byte channels, scripted client application, accepting server application}.

use super::sess::*;
use crate::ev::Run;
use rayon::prelude::*;
use rml_rtmp::sessions::{ClientSessionConfig, ClientSessionEvent, ServerSessionConfig, ServerSessionEvent, StreamMetadata};
use serde_json::{json, Value};
use std::collections::VecDeque;
use std::sync::atomic::{AtomicU64, Ordering};
use std::sync::Arc;

#[derive(Clone, Debug, PartialEq)]
pub enum Item {
    Meta(u8),
    Audio { ts: u32, len: usize },
    Video { ts: u32, len: usize },
}

#[derive(Clone, Debug)]
pub struct Scenario {
    /// one entry per activity on the same connection: true = publish, false = play
    pub modes: Vec<bool>,
    pub items: Vec<Item>,
    pub app: String,
    pub key: String,
    pub client_chunk: u32,
    pub server_chunk: u32,
    pub client_window: u32,
    pub server_window: u32,
}

#[derive(Clone, Debug, PartialEq)]
pub enum Got {
    Meta(StreamMetadata),
    Audio { ts: u32, data: Vec<u8> },
    Video { ts: u32, data: Vec<u8> },
}

#[derive(Clone, Debug)]
pub enum CEv {
    ConnAccepted,
    ConnRejected(String),
    Accepted,
    Audio { ts: u32, data: Vec<u8> },
    Video { ts: u32, data: Vec<u8> },
    Meta(StreamMetadata),
    Other,
}

fn cev(e: ClientSessionEvent) -> CEv {
    match e {
        ClientSessionEvent::ConnectionRequestAccepted => CEv::ConnAccepted,
        ClientSessionEvent::ConnectionRequestRejected { description } => CEv::ConnRejected(description),
        ClientSessionEvent::PublishRequestAccepted | ClientSessionEvent::PlaybackRequestAccepted => CEv::Accepted,
        ClientSessionEvent::AudioDataReceived { data, timestamp } => CEv::Audio { ts: timestamp.value, data: data.to_vec() },
        ClientSessionEvent::VideoDataReceived { data, timestamp } => CEv::Video { ts: timestamp.value, data: data.to_vec() },
        ClientSessionEvent::StreamMetadataReceived { metadata } => CEv::Meta(metadata),
        _ => CEv::Other,
    }
}

#[derive(Clone)]
pub struct Sys {
    sc: Arc<Scenario>,
    c: ClientH,
    s: ServerH,
    to_server: VecDeque<u8>,
    to_client: VecDeque<u8>,
    s_events: VecDeque<ServerSessionEvent>,
    c_events: VecDeque<CEv>,
    c_phase: u8,
    c_next: usize,
    round: usize,
    s_play_stream: Option<u32>,
    s_sent: usize,
    received: Vec<Got>,
    tags_ok: bool,
    accepted_app: Option<String>,
    finished: usize,
    connected: bool,
    accepted: bool,
    errors: Vec<String>,
    trace: Vec<String>,
    steps: u64,
}

#[derive(Clone, Copy, Debug, PartialEq)]
pub enum Actor {
    ToServer,
    ServerApp,
    ToClient,
    ClientApp,
}

impl Sys {
    pub fn new(sc: Scenario) -> Result<Sys, String> {
        let mut scfg = ServerSessionConfig::new();
        scfg.chunk_size = sc.server_chunk;
        scfg.window_ack_size = sc.server_window;
        let mut ccfg = ClientSessionConfig::new();
        ccfg.chunk_size = sc.client_chunk;
        ccfg.window_ack_size = sc.client_window;
        let (s, so) = ServerH::new(scfg, 1000).map_err(|e| format!("ServerSession::new: {}", e))?;
        let (c, co) = ClientH::new(ccfg, 1000).map_err(|e| format!("ClientSession::new: {}", e))?;
        let mut sys = Sys {
            sc: Arc::new(sc), c, s, to_server: VecDeque::new(), to_client: VecDeque::new(), s_events: VecDeque::new(), c_events: VecDeque::new(),
            c_phase: 0, c_next: 0, round: 0, s_play_stream: None, s_sent: 0, received: Vec::new(), tags_ok: true, accepted_app: None, finished: 0, connected: false, accepted: false,
            errors: Vec::new(), trace: Vec::new(), steps: 0,
        };
        for (b, _) in so.packets {
            sys.to_client.extend(b);
        }
        for (b, _) in co.packets {
            sys.to_server.extend(b);
        }
        Ok(sys)
    }

    pub fn enabled(&self) -> Vec<Actor> {
        let mut v = Vec::new();
        if !self.to_server.is_empty() {
            v.push(Actor::ToServer);
        }
        if !self.s_events.is_empty() || (self.s_play_stream.is_some() && self.s_sent < self.sc.items.len()) {
            v.push(Actor::ServerApp);
        }
        if !self.to_client.is_empty() {
            v.push(Actor::ToClient);
        }
        let can_act = match self.c_phase {
            0 => true,
            3 => {
                if self.publishing() { true } else { self.received.len() >= self.sc.items.len() * (self.round + 1) }
            }
            4 => self.round + 1 < self.sc.modes.len(),
            _ => false,
        };
        if !self.c_events.is_empty() || can_act {
            v.push(Actor::ClientApp);
        }
        v
    }

    fn publishing(&self) -> bool {
        self.sc.modes[self.round.min(self.sc.modes.len() - 1)]
    }

    fn server_obs(&mut self, o: Obs<ServerSessionEvent>, what: &str) {
        if let Some(p) = o.panicked {
            self.errors.push(format!("server panicked in {}: {}", what, p));
        }
        if let Some(e) = o.err {
            self.errors.push(format!("server returned Err in {}: {}", what, e));
        }
        for (b, _) in o.packets {
            self.to_client.extend(b);
        }
        self.s_events.extend(o.events);
    }

    fn client_obs(&mut self, o: Obs<ClientSessionEvent>, what: &str) {
        if let Some(p) = o.panicked {
            self.errors.push(format!("client panicked in {}: {}", what, p));
        }
        if let Some(e) = o.err {
            self.errors.push(format!("client returned Err in {}: {}", what, e));
        }
        for (b, _) in o.packets {
            self.to_server.extend(b);
        }
        self.c_events.extend(o.events.into_iter().map(cev));
    }

    /// `cut`: deliver only that many bytes (None = everything pending).
    pub fn step(&mut self, a: Actor, cut: Option<usize>) {
        self.steps += 1;
        match a {
            Actor::ToServer => {
                let n = cut.unwrap_or(self.to_server.len()).min(self.to_server.len());
                let bytes: Vec<u8> = self.to_server.drain(..n).collect();
                self.trace.push(format!("deliver {} bytes to server", n));
                let mut o = Obs::empty();
                self.s.input(&bytes, &mut o);
                self.server_obs(o, "handle_input");
            }
            Actor::ToClient => {
                let n = cut.unwrap_or(self.to_client.len()).min(self.to_client.len());
                let bytes: Vec<u8> = self.to_client.drain(..n).collect();
                self.trace.push(format!("deliver {} bytes to client", n));
                let mut o = Obs::empty();
                self.c.input(&bytes, &mut o);
                self.client_obs(o, "handle_input");
            }
            Actor::ServerApp => self.server_app(),
            Actor::ClientApp => self.client_app(),
        }
    }

    fn item_act_server(&self, sid: u32, it: &Item) -> SAct {
        match it {
            Item::Meta(v) => SAct::SendMeta { sid, variant: *v },
            Item::Audio { ts, len } => SAct::SendAudio { sid, ts: *ts, len: *len, droppable: false },
            Item::Video { ts, len } => SAct::SendVideo { sid, ts: *ts, len: *len, droppable: false },
        }
    }

    /// The name events must carry: the one the connection request was surfaced (and accepted) under.  That name must
    /// be the requested one, as it is or with trailing slashes removed (the library strips one today, pinned by its
    /// own test `connect_request_strips_trailing_slash`; keeping it, or stripping all, satisfies the statement too).
    fn expected_app(&self) -> String {
        if let Some(a) = &self.accepted_app {
            return a.clone();
        }
        let mut a = self.sc.app.clone();
        if a.ends_with('/') {
            a.pop();
        }
        a
    }

    fn acceptable_app(&self, got: &str) -> bool {
        let raw = self.sc.app.as_str();
        got == raw || (raw.ends_with('/') && (got == &raw[..raw.len() - 1] || got == raw.trim_end_matches('/')))
    }

    fn server_app(&mut self) {
        if let Some(e) = self.s_events.pop_front() {
            self.trace.push(format!("server app handles {}", ev_name_s(&e)));
            match e {
                ServerSessionEvent::ConnectionRequested { request_id, app_name } => {
                    if self.acceptable_app(&app_name) {
                        self.accepted_app = Some(app_name.clone());
                    }
                    if app_name != self.expected_app() {
                        self.tags_ok = false;
                        self.errors.push(format!("connection requested for app {:?}, client asked for {:?}", app_name, self.sc.app));
                    }
                    let o = self.s.step(&SAct::Accept { id: request_id });
                    self.server_obs(o, "accept_request(connect)");
                }
                ServerSessionEvent::PublishStreamRequested { request_id, app_name, stream_key, .. } => {
                    if app_name != self.expected_app() || stream_key != self.sc.key {
                        self.errors.push(format!("publish requested as {:?}/{:?}, expected {:?}/{:?}", app_name, stream_key, self.expected_app(), self.sc.key));
                    }
                    let o = self.s.step(&SAct::Accept { id: request_id });
                    self.server_obs(o, "accept_request(publish)");
                }
                ServerSessionEvent::PlayStreamRequested { request_id, app_name, stream_key, stream_id, .. } => {
                    if app_name != self.expected_app() || stream_key != self.sc.key {
                        self.errors.push(format!("play requested as {:?}/{:?}, expected {:?}/{:?}", app_name, stream_key, self.expected_app(), self.sc.key));
                    }
                    let o = self.s.step(&SAct::Accept { id: request_id });
                    self.server_obs(o, "accept_request(play)");
                    self.s_play_stream = Some(stream_id);
                    self.s_sent = 0;
                }
                ServerSessionEvent::AudioDataReceived { app_name, stream_key, data, timestamp } => {
                    if app_name != self.expected_app() || stream_key != self.sc.key {
                        self.errors.push(format!("audio tagged {:?}/{:?}", app_name, stream_key));
                    }
                    self.received.push(Got::Audio { ts: timestamp.value, data: data.to_vec() });
                }
                ServerSessionEvent::VideoDataReceived { app_name, stream_key, data, timestamp } => {
                    if app_name != self.expected_app() || stream_key != self.sc.key {
                        self.errors.push(format!("video tagged {:?}/{:?}", app_name, stream_key));
                    }
                    self.received.push(Got::Video { ts: timestamp.value, data: data.to_vec() });
                }
                ServerSessionEvent::StreamMetadataChanged { app_name, stream_key, metadata } => {
                    if app_name != self.expected_app() || stream_key != self.sc.key {
                        self.errors.push(format!("metadata tagged {:?}/{:?}", app_name, stream_key));
                    }
                    self.received.push(Got::Meta(metadata));
                }
                ServerSessionEvent::PublishStreamFinished { app_name, stream_key } | ServerSessionEvent::PlayStreamFinished { app_name, stream_key } => {
                    if app_name != self.expected_app() || stream_key != self.sc.key {
                        self.errors.push(format!("finished event tagged {:?}/{:?}", app_name, stream_key));
                    }
                    self.finished += 1;
                    self.s_play_stream = None;
                }
                _ => {}
            }
            return;
        }
        if let Some(sid) = self.s_play_stream {
            if self.s_sent < self.sc.items.len() {
                let it = self.sc.items[self.s_sent].clone();
                self.trace.push(format!("server app sends {:?}", it));
                let act = self.item_act_server(sid, &it);
                let o = self.s.step(&act);
                self.server_obs(o, "send");
                self.s_sent += 1;
            }
        }
    }

    fn client_app(&mut self) {
        if let Some(e) = self.c_events.pop_front() {
            self.trace.push(format!("client app handles {}", ev_name_c(&e)));
            match e {
                CEv::ConnAccepted => {
                    self.connected = true;
                    let act = if self.publishing() { CAct::RequestPublishing { key: self.sc.key.clone(), kind: 0 } } else { CAct::RequestPlayback { key: self.sc.key.clone() } };
                    let o = self.c.step(&act);
                    self.client_obs(o, "request_publishing/playback");
                    self.c_phase = 2;
                }
                CEv::Accepted => {
                    self.accepted = true;
                    self.c_phase = 3;
                }
                CEv::ConnRejected(description) => self.errors.push(format!("connection rejected: {}", description)),
                CEv::Audio { ts, data } => self.received.push(Got::Audio { ts, data }),
                CEv::Video { ts, data } => self.received.push(Got::Video { ts, data }),
                CEv::Meta(metadata) => self.received.push(Got::Meta(metadata)),
                CEv::Other => {}
            }
            return;
        }
        match self.c_phase {
            0 => {
                self.trace.push("client app requests connection".into());
                let o = self.c.step(&CAct::RequestConnection { app: self.sc.app.clone() });
                self.client_obs(o, "request_connection");
                self.c_phase = 1;
            }
            3 => {
                if self.publishing() && self.c_next < self.sc.items.len() {
                    let it = self.sc.items[self.c_next].clone();
                    self.trace.push(format!("client app publishes {:?}", it));
                    let act = match it {
                        Item::Meta(v) => CAct::PublishMeta { variant: v },
                        Item::Audio { ts, len } => CAct::PublishAudio { ts, len, droppable: false },
                        Item::Video { ts, len } => CAct::PublishVideo { ts, len, droppable: false },
                    };
                    let o = self.c.step(&act);
                    self.client_obs(o, "publish");
                    self.c_next += 1;
                } else {
                    self.trace.push("client app stops".into());
                    let act = if self.publishing() { CAct::StopPublishing } else { CAct::StopPlayback };
                    let o = self.c.step(&act);
                    self.client_obs(o, "stop");
                    self.c_phase = 4;
                }
            }
            4 => {
                // next activity on the same connection
                self.round += 1;
                self.c_next = 0;
                self.accepted = false;
                self.trace.push(format!("client app starts activity #{}", self.round + 1));
                let act = if self.publishing() { CAct::RequestPublishing { key: self.sc.key.clone(), kind: 0 } } else { CAct::RequestPlayback { key: self.sc.key.clone() } };
                let o = self.c.step(&act);
                self.client_obs(o, "request_publishing/playback");
                self.c_phase = 2;
            }
            _ => {}
        }
    }

    /// Final oracle once no actor is enabled.
    pub fn verdict(&self) -> Result<(), (String, String)> {
        if let Some(e) = self.errors.first() {
            let cls = if e.contains("panicked") { "panic" } else if e.contains("returned Err") { "session-error" } else { "tags" };
            return Err((format!("C02/{}", cls), e.clone()));
        }
        if !self.connected || !self.accepted || self.c_phase != 4 || self.round + 1 != self.sc.modes.len() {
            return Err(("C02/did-not-complete".into(), format!("the scenario stalled: connected={} accepted={} client phase {} (0 start, 1 wait connect, 2 wait accept, 3 active, 4 stopped)", self.connected, self.accepted, self.c_phase)));
        }
        let once: Vec<Got> = self.sc.items.iter().map(|it| match it {
            Item::Meta(v) => Got::Meta(metadata_sample(*v).0),
            Item::Audio { ts, len } => Got::Audio { ts: *ts, data: media_payload(*ts ^ 8, *len) },
            Item::Video { ts, len } => Got::Video { ts: *ts, data: media_payload(*ts ^ 9, *len) },
        }).collect();
        let mut want: Vec<Got> = Vec::new();
        for _ in 0..self.sc.modes.len() {
            want.extend(once.iter().cloned());
        }
        if self.received != want {
            let describe = |g: &Got| match g {
                Got::Meta(m) => format!("Meta({:?})", m),
                Got::Audio { ts, data } => format!("Audio(ts {}, {} bytes)", ts, data.len()),
                Got::Video { ts, data } => format!("Video(ts {}, {} bytes)", ts, data.len()),
            };
            let kind = if self.received.len() < want.len() { "item-lost" } else if self.received.len() > want.len() { "item-duplicated" } else { "item-differs" };
            return Err((format!("C02/{}", kind), format!("receiver raised {:?}, sender sent {:?}", self.received.iter().map(describe).collect::<Vec<_>>(), want.iter().map(describe).collect::<Vec<_>>())));
        }
        if self.finished != self.sc.modes.len() {
            return Err(("C02/finished-event".into(), format!("{} finished events at the server after the client stopped {} activities (expected exactly one each)", self.finished, self.sc.modes.len())));
        }
        Ok(())
    }
}

fn ev_name_s(e: &ServerSessionEvent) -> String {
    let s = format!("{:?}", e);
    s.split(|c| c == ' ' || c == '{').next().unwrap_or("").to_string()
}
fn ev_name_c(e: &CEv) -> String {
    let s = format!("{:?}", e);
    s.split(|c| c == ' ' || c == '{').next().unwrap_or("").to_string()
}

#[derive(Clone, Copy, Debug)]
pub enum Mode {
    Default,
    Fixed(usize),
}

pub struct Explorer<'a> {
    pub execs: &'a AtomicU64,
    pub steps: &'a AtomicU64,
    pub max_steps: u64,
}

/// positions at which a pending delivery of `n` bytes is cut when deviating
fn cut_positions(n: usize) -> Vec<usize> {
    if n <= 1 {
        return vec![];
    }
    if n <= 400 {
        return (1..n).collect();
    }
    let mut v: Vec<usize> = (1..160).collect();
    v.extend((n - 160)..n);
    let mut p = 160;
    while p < n - 160 {
        v.push(p);
        p += 89;
    }
    v.sort();
    v.dedup();
    v
}

impl<'a> Explorer<'a> {
    /// Runs to completion with the default policy from `sys`, branching at every step into all
    /// alternatives while `dev` deviations remain.  Returns the first violation.
    pub fn explore(&self, mut sys: Sys, dev: u32, mode: Mode) -> Result<(), (String, String, Vec<String>)> {
        loop {
            let en = sys.enabled();
            if en.is_empty() {
                self.execs.fetch_add(1, Ordering::Relaxed);
                self.steps.fetch_add(sys.steps, Ordering::Relaxed);
                return sys.verdict().map_err(|(s, d)| (s, d, sys.trace.clone()));
            }
            if sys.steps > self.max_steps {
                self.execs.fetch_add(1, Ordering::Relaxed);
                return Err(("C02/did-not-complete".into(), format!("no quiescence after {} steps", sys.steps), sys.trace.clone()));
            }
            if !sys.errors.is_empty() {
                self.execs.fetch_add(1, Ordering::Relaxed);
                return sys.verdict().map_err(|(s, d)| (s, d, sys.trace.clone()));
            }
            let default = en[0];
            if dev > 0 {
                // (ii) fire a different enabled actor
                for &alt in en.iter().skip(1) {
                    let mut b = sys.clone();
                    b.trace.push(format!("DEVIATION: {:?} instead of {:?}", alt, default));
                    b.step(alt, None);
                    self.explore(b, dev - 1, mode)?;
                }
                // (i) cut a delivery at byte position p
                for &actor in en.iter() {
                    let pending = match actor {
                        Actor::ToServer => sys.to_server.len(),
                        Actor::ToClient => sys.to_client.len(),
                        _ => 0,
                    };
                    for p in cut_positions(pending) {
                        let mut b = sys.clone();
                        b.trace.push(format!("DEVIATION: {:?} cut after {} of {} bytes", actor, p, pending));
                        b.step(actor, Some(p));
                        self.explore(b, dev - 1, mode)?;
                    }
                }
            }
            let cut = match (mode, default) {
                (Mode::Fixed(k), Actor::ToServer) | (Mode::Fixed(k), Actor::ToClient) => Some(k),
                _ => None,
            };
            sys.step(default, cut);
        }
    }
}

pub fn default_scenario(publish: bool) -> Scenario {
    Scenario {
        modes: vec![publish], items: vec![Item::Meta(7), Item::Audio { ts: 5, len: 3 }, Item::Video { ts: 0x100_0000, len: 0 }],
        app: "live".into(), key: "stream1".into(), client_chunk: 4096, server_chunk: 4096, client_window: 2_500_000, server_window: 1_073_741_824,
    }
}

/// One execution under the default schedule (used by C19 as "mini C02").
pub fn run_default(sc: Scenario) -> Result<(), String> {
    let execs = AtomicU64::new(0);
    let steps = AtomicU64::new(0);
    let ex = Explorer { execs: &execs, steps: &steps, max_steps: 200_000 };
    let sys = Sys::new(sc)?;
    ex.explore(sys, 0, Mode::Default).map_err(|(s, d, _)| format!("{}: {}", s, d))
}

pub fn run(run: &Run) {
    let thorough = run.thorough();
    let execs = AtomicU64::new(0);
    let steps = AtomicU64::new(0);
    // ---- scenario scripts ----
    let item_menu: Vec<Item> = vec![
        Item::Meta(7), Item::Meta(8), Item::Meta(0), Item::Meta(16), Item::Meta(48), Item::Audio { ts: 0, len: 0 }, Item::Audio { ts: 0xFF_FFFF, len: 1 }, Item::Video { ts: 0xFFFF_FFFF, len: 5 },
        Item::Video { ts: 1, len: 129 }, Item::Audio { ts: 0x100_0000, len: 4097 },
    ];
    let mut scripts: Vec<Vec<Item>> = Vec::new();
    for a in item_menu.iter() {
        scripts.push(vec![a.clone()]);
        for b in item_menu.iter() {
            scripts.push(vec![a.clone(), b.clone()]);
        }
    }
    scripts.push(vec![]);
    scripts.push(vec![Item::Meta(15), Item::Video { ts: 0xFFFF_FFFE, len: 3 }, Item::Video { ts: 0xFFFF_FFFF, len: 3 }, Item::Video { ts: 0, len: 3 }]); // wrapping
    scripts.push(vec![Item::Audio { ts: 100, len: 3 }, Item::Audio { ts: 50, len: 3 }, Item::Audio { ts: 75, len: 3 }]); // falling
    scripts.push(vec![Item::Video { ts: 10, len: 65_537 }, Item::Audio { ts: 11, len: 2 }]);
    let chunk_pairs: Vec<(u32, u32)> = if thorough {
        let v = [1u32, 2, 128, 4096, 0x7FFF_FFFF];
        let mut p = Vec::new();
        for &a in v.iter() {
            for &b in v.iter() {
                p.push((a, b));
            }
        }
        p
    } else {
        vec![(4096, 4096), (1, 128), (128, 1), (2, 0x7FFF_FFFF), (0x7FFF_FFFF, 2), (128, 128)]
    };
    let windows: Vec<(u32, u32)> = vec![(2_500_000, 1_073_741_824), (1, 1_073_741_824), (1_073_741_824, 1), (64, 64), (u32::MAX, 0)];

    // ---- job list: (scenario, deviations, mode) ----
    let mut jobs: Vec<(Scenario, u32, Mode)> = Vec::new();
    let mk = |publish: bool, items: &Vec<Item>, cp: (u32, u32), w: (u32, u32)| Scenario {
        modes: vec![publish], items: items.clone(), app: "live".into(), key: "stream1".into(), client_chunk: cp.0, server_chunk: cp.1, client_window: w.0, server_window: w.1,
    };
    for publish in [true, false] {
        for (si, items) in scripts.iter().enumerate() {
            for (ci, &cp) in chunk_pairs.iter().enumerate() {
                for (wi, &w) in windows.iter().enumerate() {
                    let heavy = items.iter().any(|i| matches!(i, Item::Video { len, .. } | Item::Audio { len, .. } if *len > 5000));
                    // modes without deviations: default, 1-byte and 7-byte deliveries
                    if !(heavy && (cp.0 == 1 || cp.1 == 1)) {
                        jobs.push((mk(publish, items, cp, w), 0, Mode::Default));
                        if (thorough || (si + ci + wi) % 5 == 0) && !heavy {
                            jobs.push((mk(publish, items, cp, w), 0, Mode::Fixed(1)));
                            jobs.push((mk(publish, items, cp, w), 0, Mode::Fixed(7)));
                        }
                    }
                    // one deviation: all cut positions / all alternative actors at every step
                    let small = items.len() <= 2 && !heavy;
                    if small && (thorough || (si * 7 + ci * 3 + wi) % 11 == 0) {
                        jobs.push((mk(publish, items, cp, w), 1, Mode::Default));
                    }
                }
            }
        }
    }
    // several activities on one connection (publish/play, stop, publish/play again): the second
    // activity runs on a new message stream over chunk streams that already carry history
    let multi: Vec<Vec<bool>> = vec![vec![true, true], vec![false, false], vec![true, false], vec![false, true], vec![true, true, true]];
    for modes in multi.iter() {
        for (si, items) in scripts.iter().enumerate() {
            if items.is_empty() || items.iter().any(|i| matches!(i, Item::Video { len, .. } | Item::Audio { len, .. } if *len > 5000)) {
                continue;
            }
            for (ci, &cp) in chunk_pairs.iter().enumerate() {
                if !thorough && (si + ci) % 4 != 0 {
                    continue;
                }
                let mut sc = mk(true, items, cp, windows[(si + ci) % windows.len()]);
                sc.modes = modes.clone();
                jobs.push((sc.clone(), 0, Mode::Default));
                // with a window below the size of an acknowledgement every 1-byte call is answered by a
                // ~20-byte acknowledgement: finite but tens of steps per payload byte - keep those small
                let tiny_window = sc.client_window < 100 || sc.server_window < 100;
                let large_item = items.iter().any(|i| matches!(i, Item::Video { len, .. } | Item::Audio { len, .. } if *len > 1000));
                if (si + ci) % 8 == 0 && !(tiny_window && large_item) {
                    jobs.push((sc.clone(), 0, Mode::Fixed(1)));
                    if items.len() <= 1 && (thorough || ci == 0) {
                        jobs.push((sc, 1, Mode::Default));
                    }
                }
            }
        }
    }
    // application names and stream keys that expose trimming, case folding, truncation, slash handling
    for (app, key) in [("live/", "stream1"), ("A pp/", "K1 ?a=b&c%20 "), ("a//", " k\u{e9}\u{0}2"), ("/", "")] {
        for modes in [vec![true], vec![false], vec![true, false]] {
            let mut sc = mk(true, &vec![Item::Meta(7), Item::Audio { ts: 5, len: 3 }, Item::Video { ts: 9, len: 200 }], (128, 4096), (2_500_000, 1_073_741_824));
            sc.modes = modes;
            sc.app = app.to_string();
            sc.key = key.to_string();
            jobs.push((sc, 0, Mode::Default));
        }
    }
    // long activities: hundreds of items (counters, sequence numbers, per-item state), default and 7-byte delivery
    {
        let long: Vec<Item> = (0..300u32).map(|i| match i % 3 {
            0 => Item::Audio { ts: i * 20, len: 3 },
            1 => Item::Video { ts: i * 20 + 1, len: ((i % 5) * 40) as usize },
            _ => Item::Meta((i % 16) as u8),
        }).collect();
        for publish in [true, false] {
            for cp in [(128u32, 128u32), (4096, 1), (2, 4096)] {
                for w in [(2_500_000u32, 1_073_741_824u32), (1_000, 1_000)] {
                    jobs.push((mk(publish, &long, cp, w), 0, Mode::Default));
                    if cp.0 == 128 {
                        jobs.push((mk(publish, &long, cp, w), 0, Mode::Fixed(7)));
                    }
                }
            }
        }
    }
    // two deviations on four representative configurations
    if thorough {
        for publish in [true, false] {
            for cp in [(128u32, 128u32), (1, 4096)] {
                jobs.push((mk(publish, &vec![Item::Meta(7), Item::Audio { ts: 0xFF_FFFF, len: 1 }], cp, (2_500_000, 1_073_741_824)), 2, Mode::Default));
            }
        }
    }
    run.set("jobs", json!(jobs.len()));
    // one actual execution, written out
    if let Some((sc, _, _)) = jobs.iter().find(|(sc, d, _)| *d == 0 && sc.items.len() == 2 && sc.client_chunk == 1) {
        if let Ok(mut sys) = Sys::new(sc.clone()) {
            while let Some(a) = sys.enabled().first().cloned() {
                sys.step(a, None);
                if sys.steps > 10_000 {
                    break;
                }
            }
            run.sample(json!({"scenario": format!("{:?}", sc), "default_schedule": sys.trace, "verdict": format!("{:?}", sys.verdict().is_ok())}));
        }
    }
    let by_dev: [AtomicU64; 3] = [AtomicU64::new(0), AtomicU64::new(0), AtomicU64::new(0)];
    jobs.par_iter().for_each(|(sc, dev, mode)| {
        let ex = Explorer { execs: &execs, steps: &steps, max_steps: 3_000_000 };
        let before = execs.load(Ordering::Relaxed);
        let _ = before;
        let replay_cfg = json!({"scenario": format!("{:?}", sc), "deviation_bound": dev, "delivery_mode": format!("{:?}", mode)});
        match Sys::new(sc.clone()) {
            Err(e) => run.violation("C02/session-construction", &e, replay_cfg),
            Ok(sys) => {
                if let Err((sig, d, trace)) = ex.explore(sys, *dev, *mode) {
                    run.violation(&sig, &format!("{} ; scenario {:?} deviations<={} mode {:?}", d, sc, dev, mode), json!({"config": replay_cfg, "schedule": trace}));
                }
            }
        }
        by_dev[*dev as usize].fetch_add(1, Ordering::Relaxed);
    });
    let e = execs.load(Ordering::Relaxed);
    run.set("states", json!(steps.load(Ordering::Relaxed)));
    run.set("transitions", json!(steps.load(Ordering::Relaxed)));
    run.set("traces_validated_against_impl", json!(e));
    run.set("executions", json!(e));
    run.set("exhaustive", json!(false));
    run.set("bound", json!("deviation bound 0 over every (script, chunk-size pair, window pair) incl. 1-byte and 7-byte delivery modes; deviation bound 1 (every alternative actor and every cut position at every step) on small scripts; bound 2 on representative configurations (thorough)"));
    run.set("configurations", json!({"chunk_size_pairs": chunk_pairs, "window_pairs_client_server": windows, "scripts": scripts.len(), "directions": ["publish", "play"]}));
    run.count("executions", e);
    run.count("jobs_deviation_0", by_dev[0].load(Ordering::Relaxed));
    run.count("jobs_deviation_1", by_dev[1].load(Ordering::Relaxed));
    run.count("jobs_deviation_2", by_dev[2].load(Ordering::Relaxed));
    run.set("explanation", json!("every execution runs the real ClientSession against the real ServerSession to quiescence; 'states'/'transitions' count actor steps (session calls); the oracle requires connect and publish/play to be accepted, every sent item raised exactly once, in order, with identical bytes/timestamp/metadata under the requested application name and stream key, one finished event after the client stops, and no Err from either session"));
    run.sample(json!({"scenario": "publish [Meta(7), Audio{ts 16777215, 1 byte}] client chunk 1, server chunk 128, windows (64,64)", "schedule": ["client app requests connection", "deliver 187 bytes to server", "DEVIATION: ToServer cut after 13 of 187 bytes", "..."]}));
    run.assume("window pairs whose acknowledgement traffic diverges under fine fragmentation (both windows below the size of an acknowledgement) are excluded: 'completes' is undecidable for them in finite time");
    run.assume("the client stops after it has sent (publish) or received (play) all items");
    if run.violation_count() == 0 {
        run.require_hist(&["executions", "jobs_deviation_0", "jobs_deviation_1"]);
    }
}

#[allow(dead_code)]
fn unused(_: Value) {}
