//! C10 — the client session follows the connect/create/publish|play workflow in every history.
//! E1: BFS over (real ClientSession x reference model R5c).

use super::sess::*;
use crate::bfs::{bfs, BfsOptions, Graph, StepOut};
use crate::counters::Counters;
use crate::ev::Run;
use crate::refmodel::amf0::V;
use crate::refmodel::msg::M;
use crate::util::hash128;
use rml_rtmp::chunk_io::ChunkDeserializer;
use rml_rtmp::sessions::ClientSessionEvent;
use serde_json::{json, Value};
use std::collections::{BTreeMap, BTreeSet};

/// Names chosen so that trimming, case folding, truncation at NUL, query-string stripping or percent
/// decoding anywhere between the request and the event/command that carries them would be visible.
pub const APP_A: &str = "A pp";
pub const KEY1: &str = "K1 ?a=b&c%20 ";
pub const KEY2: &str = " k\u{e9}\u{0}2";

#[derive(Clone, Debug, PartialEq, Eq, Hash)]
pub enum CSt {
    Disconnected,
    Connected,
    PlayRequested,
    Playing,
    PublishRequested,
    Publishing,
}

#[derive(Clone, Debug, PartialEq, Eq, Hash)]
pub enum Tx {
    Connect(String),
    CreatePlay(String),
    CreatePublish(String, u8),
}

#[derive(Clone, Debug, PartialEq, Eq, Hash)]
pub struct ClientModel {
    pub st: CSt,
    pub out: BTreeMap<u32, Tx>,
    pub used_tx: BTreeSet<u32>,
    pub consumed: BTreeSet<u32>,
    pub active: Option<u32>,
}

impl Default for ClientModel {
    fn default() -> Self {
        ClientModel { st: CSt::Disconnected, out: BTreeMap::new(), used_tx: BTreeSet::new(), consumed: BTreeSet::new(), active: None }
    }
}

type Verdict = Result<(), (String, String)>;

fn v(sig: &str, detail: String) -> Verdict {
    Err((format!("C10/{}", sig), detail))
}

#[derive(Debug, Clone, PartialEq)]
enum Ev {
    ConnAccepted,
    ConnRejected,
    PlayAccepted,
    PublishAccepted,
    Audio { ts: u32, data: Vec<u8> },
    Video { ts: u32, data: Vec<u8> },
    Meta(rml_rtmp::sessions::StreamMetadata),
    UnknownTx,
}

fn project(events: &[ClientSessionEvent]) -> Vec<Ev> {
    let mut out = Vec::new();
    for e in events {
        match e {
            ClientSessionEvent::ConnectionRequestAccepted => out.push(Ev::ConnAccepted),
            ClientSessionEvent::ConnectionRequestRejected { .. } => out.push(Ev::ConnRejected),
            ClientSessionEvent::PlaybackRequestAccepted => out.push(Ev::PlayAccepted),
            ClientSessionEvent::PublishRequestAccepted => out.push(Ev::PublishAccepted),
            ClientSessionEvent::AudioDataReceived { timestamp, data } => out.push(Ev::Audio { ts: timestamp.value, data: data.to_vec() }),
            ClientSessionEvent::VideoDataReceived { timestamp, data } => out.push(Ev::Video { ts: timestamp.value, data: data.to_vec() }),
            ClientSessionEvent::StreamMetadataReceived { metadata } => out.push(Ev::Meta(metadata.clone())),
            ClientSessionEvent::UnknownTransactionResultReceived { .. } => out.push(Ev::UnknownTx),
            _ => {}
        }
    }
    out
}

fn commands<'a>(outs: &'a [Out], name: &str) -> Vec<&'a Out> {
    outs.iter().filter(|o| matches!(&o.m, M::Command { name: n, .. } if n == name)).collect()
}

fn tx_of(o: &Out) -> Option<u32> {
    if let M::Command { tx, .. } = &o.m {
        let f = f64::from_bits(*tx);
        if f.fract() == 0.0 && f >= 0.0 && f <= u32::MAX as f64 {
            return Some(f as u32);
        }
    }
    None
}

impl ClientModel {
    fn refuse(&self, a: &CAct, o: &Obs<ClientSessionEvent>, fpb: &[u8], fpa: &[u8], evs: &[Ev]) -> Verdict {
        if !o.packets.is_empty() {
            return v("request-from-wrong-state/bytes-emitted", format!("{:?} in model state {:?} must be refused, but {} packet(s) were emitted", a, self.st, o.packets.len()));
        }
        if fpb != fpa {
            return v("request-from-wrong-state/state-changed", format!("{:?} in model state {:?} must be refused without changing state", a, self.st));
        }
        if !evs.is_empty() {
            return v("request-from-wrong-state/event", format!("{:?} raised {:?}", a, evs));
        }
        Ok(())
    }

    pub fn check(&mut self, a: &CAct, o: &Obs<ClientSessionEvent>, outs: &[Out], fpb: &[u8], fpa: &[u8]) -> Verdict {
        if let Some(p) = &o.panicked {
            return v("panic", format!("{:?} panicked: {}", a, p));
        }
        let evs = project(&o.events);
        let no_events = |what: &str| -> Verdict {
            if evs.is_empty() { Ok(()) } else { v(&format!("unexpected-event/{}", what), format!("{:?} raised {:?} in model state {:?}", a, evs, self.st)) }
        };
        match a {
            CAct::RequestConnection { app } => {
                if self.st != CSt::Disconnected {
                    return self.refuse(a, o, fpb, fpa, &evs);
                }
                no_events("request_connection")?;
                // a second connect while one is still unanswered: emitting and refusing are both fine
                if self.out.values().any(|t| matches!(t, Tx::Connect(_))) && o.packets.is_empty() && fpb == fpa {
                    return Ok(());
                }
                let c = commands(outs, "connect");
                if !o.ok() || c.len() != 1 || outs.len() != 1 {
                    return v("connect/not-emitted", format!("request_connection while disconnected must emit exactly one connect command; got {:?} (err {:?})", outs, o.err));
                }
                let tx = match tx_of(c[0]) {
                    Some(t) => t,
                    None => return v("connect/transaction-id", format!("{:?}", c[0])),
                };
                if self.used_tx.contains(&tx) {
                    return v("transaction-id-not-fresh", format!("connect uses transaction id {} again", tx));
                }
                if let M::Command { object: V::Obj(props), .. } = &c[0].m {
                    if !props.iter().any(|(k, val)| k == "app" && *val == V::Str(app.clone())) {
                        return v("connect/app", format!("connect command object lacks app={:?}: {:?}", app, props));
                    }
                } else {
                    return v("connect/app", "connect command object is not an object".into());
                }
                self.used_tx.insert(tx);
                self.out.insert(tx, Tx::Connect(app.clone()));
                Ok(())
            }
            CAct::RequestPlayback { .. } | CAct::RequestPublishing { .. } => {
                if self.st != CSt::Connected {
                    return self.refuse(a, o, fpb, fpa, &evs);
                }
                no_events("request")?;
                // "connected and idle": with a createStream still unanswered both behaviours are fine
                if self.out.values().any(|t| matches!(t, Tx::CreatePlay(_) | Tx::CreatePublish(_, _))) && o.packets.is_empty() && fpb == fpa {
                    return Ok(());
                }
                let c = commands(outs, "createStream");
                if !o.ok() || c.len() != 1 || outs.len() != 1 {
                    return v("request/createStream-not-emitted", format!("{:?} while connected must emit exactly one createStream; got {:?} (err {:?})", a, outs, o.err));
                }
                if c[0].msid != 0 {
                    return v("request/createStream-stream-id", format!("createStream sent on message stream {}", c[0].msid));
                }
                let tx = match tx_of(c[0]) {
                    Some(t) => t,
                    None => return v("request/transaction-id", format!("{:?}", c[0])),
                };
                if self.used_tx.contains(&tx) {
                    return v("transaction-id-not-fresh", format!("createStream uses transaction id {} again", tx));
                }
                self.used_tx.insert(tx);
                self.out.insert(tx, match a {
                    CAct::RequestPlayback { key } => Tx::CreatePlay(key.clone()),
                    CAct::RequestPublishing { key, kind } => Tx::CreatePublish(key.clone(), *kind),
                    _ => unreachable!(),
                });
                Ok(())
            }
            CAct::PublishMeta { .. } | CAct::PublishVideo { .. } | CAct::PublishAudio { .. } => {
                let sid = match (&self.st, self.active) {
                    (CSt::Publishing, Some(sid)) => sid,
                    _ => return self.refuse(a, o, fpb, fpa, &evs),
                };
                no_events("publish")?;
                if !o.ok() || outs.len() != 1 {
                    return v("publish/not-emitted", format!("{:?} while publishing must emit exactly one message; got {} (err {:?})", a, outs.len(), o.err));
                }
                let m = &outs[0];
                if m.msid != sid {
                    return v("publish/stream-id", format!("{:?} emitted on message stream {} instead of the active stream {}", a, m.msid, sid));
                }
                match a {
                    CAct::PublishVideo { ts, len, droppable } | CAct::PublishAudio { ts, len, droppable } => {
                        let audio = matches!(a, CAct::PublishAudio { .. });
                        let want = media_payload(*ts ^ if audio { 8 } else { 9 }, *len);
                        let ok = match (&m.m, audio) {
                            (M::Audio(d), true) | (M::Video(d), false) => *d == want,
                            _ => false,
                        };
                        if !ok || m.ts != *ts {
                            return v("publish/media-content", format!("{:?} emitted {:?} bytes / ts {}", a, match &m.m { M::Audio(d) | M::Video(d) => d.len(), _ => usize::MAX }, m.ts));
                        }
                        if m.droppable != *droppable {
                            return v("publish/droppable-flag", format!("{:?} emitted a packet with can_be_dropped={}", a, m.droppable));
                        }
                    }
                    CAct::PublishMeta { variant } => {
                        let want = metadata_sample(*variant).1;
                        let ok = matches!(&m.m, M::Data(vals) if vals.len() == 3 && vals[0] == s("@setDataFrame") && vals[1] == s("onMetaData") && vals[2] == crate::refmodel::amf0::canon(&want));
                        if !ok {
                            return v("publish/metadata-content", format!("{:?} emitted {:?}", a, m.m));
                        }
                    }
                    _ => {}
                }
                Ok(())
            }
            CAct::StopPlayback | CAct::StopPublishing => {
                let play = matches!(a, CAct::StopPlayback);
                let permitted = if play { matches!(self.st, CSt::PlayRequested | CSt::Playing) } else { matches!(self.st, CSt::PublishRequested | CSt::Publishing) };
                if !permitted {
                    return self.refuse(a, o, fpb, fpa, &evs);
                }
                no_events("stop")?;
                let sid = match self.active {
                    Some(x) => x,
                    None => return Ok(()), // cannot happen in the model
                };
                let d = commands(outs, "deleteStream");
                if !o.ok() || d.len() != 1 || outs.len() != 1 {
                    return v("stop/deleteStream-not-emitted", format!("{:?} must emit exactly one deleteStream; got {:?} (err {:?})", a, outs, o.err));
                }
                if let M::Command { args, .. } = &d[0].m {
                    if args.first() != Some(&num(sid as f64)) {
                        return v("stop/deleteStream-argument", format!("deleteStream names {:?} instead of the active stream {}", args.first(), sid));
                    }
                }
                self.st = CSt::Connected;
                self.active = None;
                Ok(())
            }
            CAct::SendPing => {
                no_events("send_ping_request")?;
                let pings: Vec<&Out> = outs.iter().filter(|x| matches!(&x.m, M::UserControl { code: 6, .. })).collect();
                if !o.ok() || pings.len() != 1 || outs.len() != 1 {
                    return v("ping-request/not-emitted", format!("{:?} (err {:?})", outs, o.err));
                }
                Ok(())
            }
            CAct::Result { tx, stream } => {
                let txi = *tx as u32;
                match self.out.remove(&txi) {
                    None => self.unknown_tx(a, &evs, outs, fpb, fpa),
                    Some(t) => {
                        self.consumed.insert(txi);
                        match t {
                            Tx::Connect(_) => {
                                if evs != vec![Ev::ConnAccepted] {
                                    return v("result/connect-not-accepted", format!("_result for the connect transaction must raise exactly ConnectionRequestAccepted, got {:?} (err {:?})", evs, o.err));
                                }
                                let has_win = outs.iter().any(|x| matches!(x.m, M::WindowAck(_)));
                                let has_cs = outs.iter().any(|x| matches!(x.m, M::SetChunkSize(_)));
                                if !has_win || !has_cs {
                                    return v("result/connect-announcements-missing", format!("window ack / chunk size announcements missing: {:?}", outs));
                                }
                                self.st = CSt::Connected;
                                Ok(())
                            }
                            Tx::CreatePlay(key) => match stream {
                                Some(n) => {
                                    no_events("createStream-result")?;
                                    let sid = *n as u32;
                                    let p = commands(outs, "play");
                                    if p.len() != 1 || !commands(outs, "publish").is_empty() {
                                        return v("result/play-command-missing", format!("createStream result for a play request must emit exactly one play command; got {:?} (err {:?})", outs, o.err));
                                    }
                                    if p[0].msid != sid {
                                        return v("result/play-stream-id", format!("play sent on message stream {} instead of the returned stream {}", p[0].msid, sid));
                                    }
                                    if let M::Command { args, .. } = &p[0].m {
                                        if args.first() != Some(&s(&key)) {
                                            return v("result/play-key", format!("play names {:?} instead of {:?}", args.first(), key));
                                        }
                                    }
                                    self.active = Some(sid);
                                    self.st = CSt::PlayRequested;
                                    Ok(())
                                }
                                None => self.no_stream_command(a, &evs, outs),
                            },
                            Tx::CreatePublish(key, kind) => match stream {
                                Some(n) => {
                                    no_events("createStream-result")?;
                                    let sid = *n as u32;
                                    let p = commands(outs, "publish");
                                    if p.len() != 1 || !commands(outs, "play").is_empty() {
                                        return v("result/publish-command-missing", format!("createStream result for a publish request must emit exactly one publish command; got {:?} (err {:?})", outs, o.err));
                                    }
                                    if p[0].msid != sid {
                                        return v("result/publish-stream-id", format!("publish sent on message stream {} instead of the returned stream {}", p[0].msid, sid));
                                    }
                                    if let M::Command { args, .. } = &p[0].m {
                                        if args.first() != Some(&s(&key)) || args.get(1) != Some(&s(kind_name(kind))) {
                                            return v("result/publish-arguments", format!("publish carries {:?}, expected {:?} {:?}", args, key, kind_name(kind)));
                                        }
                                    }
                                    self.active = Some(sid);
                                    self.st = CSt::PublishRequested;
                                    Ok(())
                                }
                                None => self.no_stream_command(a, &evs, outs),
                            },
                        }
                    }
                }
            }
            CAct::ResultMalformedStream { tx } => {
                let txi = *tx as u32;
                match self.out.remove(&txi) {
                    None => self.unknown_tx(a, &evs, outs, fpb, fpa),
                    Some(Tx::Connect(_)) => {
                        self.consumed.insert(txi);
                        if evs != vec![Ev::ConnAccepted] {
                            return v("result/connect-not-accepted", format!("{:?}", evs));
                        }
                        self.st = CSt::Connected;
                        Ok(())
                    }
                    Some(_) => {
                        self.consumed.insert(txi);
                        self.no_stream_command(a, &evs, outs)
                    }
                }
            }
            CAct::Error { tx } => {
                let txi = *tx as u32;
                match self.out.remove(&txi) {
                    None => self.unknown_tx(a, &evs, outs, fpb, fpa),
                    Some(Tx::Connect(_)) => {
                        self.consumed.insert(txi);
                        if evs != vec![Ev::ConnRejected] {
                            return v("error/connect-not-rejected", format!("_error for the connect transaction must raise exactly ConnectionRequestRejected, got {:?}", evs));
                        }
                        Ok(())
                    }
                    Some(_) => {
                        self.consumed.insert(txi);
                        self.no_stream_command(a, &evs, outs)
                    }
                }
            }
            CAct::OnStatus { code } => {
                let (want_st, ev, next) = match code.as_str() {
                    "NetStream.Play.Start" => (Some(CSt::PlayRequested), Ev::PlayAccepted, CSt::Playing),
                    "NetStream.Publish.Start" => (Some(CSt::PublishRequested), Ev::PublishAccepted, CSt::Publishing),
                    _ => (None, Ev::UnknownTx, CSt::Connected),
                };
                if want_st.as_ref() == Some(&self.st) {
                    if evs != vec![ev.clone()] {
                        return v("status/accepted-event-missing", format!("{:?} in model state {:?} must raise exactly {:?}, got {:?} (err {:?})", a, self.st, ev, evs, o.err));
                    }
                    self.st = next;
                    Ok(())
                } else {
                    if evs.iter().any(|e| matches!(e, Ev::PlayAccepted | Ev::PublishAccepted)) {
                        return v("status/accepted-in-wrong-state", format!("{:?} in model state {:?} raised {:?}", a, self.st, evs));
                    }
                    no_events("status")?;
                    if fpb != fpa {
                        return v("status/state-changed", format!("{:?} in model state {:?} changed the session state", a, self.st));
                    }
                    Ok(())
                }
            }
            CAct::OnStatusMalformed { .. } => {
                no_events("malformed-status")?;
                if fpb != fpa {
                    return v("status/state-changed", format!("{:?} changed the session state", a));
                }
                Ok(())
            }
            CAct::Audio { msid, ts, len } | CAct::Video { msid, ts, len } => {
                let audio = matches!(a, CAct::Audio { .. });
                let gate = matches!(self.st, CSt::PlayRequested | CSt::Playing) && self.active == Some(*msid);
                if gate {
                    let data = media_payload(*ts ^ if audio { 8 } else { 9 }, *len);
                    let want = if audio { Ev::Audio { ts: *ts, data } } else { Ev::Video { ts: *ts, data } };
                    if evs != vec![want] {
                        return v("media/event-missing", format!("{:?} on the active stream in state {:?} must raise exactly one matching media event; got {} event(s) (err {:?})", a, self.st, evs.len(), o.err));
                    }
                    Ok(())
                } else {
                    no_events("media-outside-playback-or-other-stream")
                }
            }
            CAct::Meta { msid, variant } => {
                let want = Ev::Meta(metadata_sample(*variant).0);
                if self.active == Some(*msid) {
                    if matches!(self.st, CSt::PlayRequested | CSt::Playing) {
                        if evs != vec![want] {
                            return v("metadata/event-missing", format!("{:?} on the active stream in state {:?}: got {:?}", a, self.st, evs));
                        }
                    } else if !(evs.is_empty() || evs == vec![want]) {
                        return v("metadata/unexpected-events", format!("{:?}", evs));
                    }
                    Ok(())
                } else {
                    no_events("metadata-on-inactive-stream")
                }
            }
            CAct::MetaMalformed { .. } => {
                if evs.iter().any(|e| !matches!(e, Ev::Meta(_))) || (self.active.is_none() && !evs.is_empty()) {
                    return v("unexpected-event/malformed-metadata", format!("{:?}", evs));
                }
                Ok(())
            }
            CAct::Ping { ts } => {
                no_events("ping")?;
                let pongs: Vec<&Out> = outs.iter().filter(|x| matches!(&x.m, M::UserControl { code: 7, .. })).collect();
                if pongs.len() != 1 {
                    return v("ping/not-echoed-once", format!("got {:?} (err {:?})", outs, o.err));
                }
                if let M::UserControl { timestamp, .. } = &pongs[0].m {
                    if *timestamp != Some(*ts) {
                        return v("ping/timestamp", format!("ping response carries {:?} instead of {}", timestamp, ts));
                    }
                }
                Ok(())
            }
            CAct::PingOnStream { ts, .. } => {
                return self.check(&CAct::Ping { ts: *ts }, o, outs, fpb, fpa);
            }
            CAct::PingBurst { ts, n } => {
                no_events("ping")?;
                let got: Vec<Option<u32>> = outs.iter().filter_map(|x| match &x.m { M::UserControl { code: 7, timestamp, .. } => Some(*timestamp), _ => None }).collect();
                let want: Vec<Option<u32>> = (0..*n).map(|k| Some(ts.wrapping_add(k as u32))).collect();
                if got != want {
                    return v("ping/burst-not-echoed-one-by-one", format!("{} ping requests in one input call must be echoed one by one with {:?}, got {:?} (err {:?})", n, want, got, o.err));
                }
                Ok(())
            }
            CAct::Ack { .. } | CAct::UnknownCommand | CAct::Raw { .. } | CAct::Clock { .. } => no_events("other"),
        }
    }

    fn unknown_tx(&self, a: &CAct, evs: &[Ev], outs: &[Out], fpb: &[u8], fpa: &[u8]) -> Verdict {
        if evs != [Ev::UnknownTx] {
            return v("unknown-transaction/not-reported-or-applied", format!("{:?} answers no outstanding transaction: it must be reported (UnknownTransactionResultReceived) and nothing else, got {:?}", a, evs));
        }
        if !outs.is_empty() {
            return v("unknown-transaction/applied", format!("{:?} answers no outstanding transaction but bytes were emitted: {:?}", a, outs));
        }
        if fpb != fpa {
            return v("unknown-transaction/applied", format!("{:?} answers no outstanding transaction but changed the session state", a));
        }
        Ok(())
    }

    fn no_stream_command(&self, a: &CAct, evs: &[Ev], outs: &[Out]) -> Verdict {
        if !evs.is_empty() {
            return v("unexpected-event/failed-createStream", format!("{:?} raised {:?}", a, evs));
        }
        if !commands(outs, "play").is_empty() || !commands(outs, "publish").is_empty() {
            return v("result/command-without-stream-id", format!("{:?} must not lead to a play/publish command: {:?}", a, outs));
        }
        Ok(())
    }

    pub fn fingerprint(&self, out: &mut Vec<u8>) {
        out.extend_from_slice(format!("{:?}", self).as_bytes());
    }
}

#[derive(Clone)]
pub struct St {
    pub h: ClientH,
    pub peer_de: ChunkDeserializer,
    pub model: ClientModel,
}

pub struct G {
    pub c: Counters,
    pub max_outstanding: usize,
    pub extended: bool,
}

const NAMES: [&str; 10] = [
    "requests_emitted", "requests_refused", "results_applied", "unknown_tx_reported", "accepted_events", "media_events", "stops", "pings_echoed", "publishes_emitted", "publishes_refused",
];

pub fn actions_for(m: &ClientModel, max_outstanding: usize, extended: bool) -> Vec<CAct> {
    let mut a = Vec::new();
    let room = m.out.len() < max_outstanding;
    // requests are always in the menu when they must be refused; when permitted only while there is room
    if m.st != CSt::Disconnected || room {
        a.push(CAct::RequestConnection { app: APP_A.into() });
    }
    if m.st != CSt::Connected || room {
        a.push(CAct::RequestPlayback { key: KEY1.into() });
        a.push(CAct::RequestPublishing { key: KEY2.into(), kind: 0 });
        if extended {
            a.push(CAct::RequestPublishing { key: "k3".into(), kind: 1 });
        }
    }
    a.push(CAct::StopPlayback);
    a.push(CAct::StopPublishing);
    a.push(CAct::PublishMeta { variant: 5 });
    a.push(CAct::PublishVideo { ts: 0xFFFF_FFF0, len: 3, droppable: true });
    a.push(CAct::PublishAudio { ts: 5, len: 0, droppable: false });
    a.push(CAct::SendPing);
    let mut txs: Vec<u32> = m.out.keys().cloned().collect();
    if let Some(c) = m.consumed.iter().next() {
        txs.push(*c);
    }
    txs.push(99);
    for t in txs {
        a.push(CAct::Result { tx: t as f64, stream: Some(5.0) });
        a.push(CAct::Result { tx: t as f64, stream: None });
        a.push(CAct::Error { tx: t as f64 });
        if extended {
            a.push(CAct::Result { tx: t as f64, stream: Some(6.0) });
            a.push(CAct::ResultMalformedStream { tx: t as f64 });
        }
    }
    for code in ["NetStream.Play.Start", "NetStream.Publish.Start", "NetStream.Play.Reset", "NetStream.Publish.BadName", "NetStream.Play.StreamNotFound"] {
        a.push(CAct::OnStatus { code: code.into() });
    }
    for shape in 0..3 {
        a.push(CAct::OnStatusMalformed { shape });
    }
    // another stream, the active one (or the id a later createStream answer will carry), and message stream 0
    // (what "no stream" looks like when an Option is flattened)
    let mut msids = vec![42u32, 0];
    if let Some(x) = m.active {
        msids.push(x);
    } else {
        msids.push(5);
    }
    for ms in msids {
        a.push(CAct::Audio { msid: ms, ts: 9, len: 2 });
        a.push(CAct::Video { msid: ms, ts: 0x0100_0000, len: 0 });
        a.push(CAct::Meta { msid: ms, variant: 3 });
    }
    a.push(CAct::MetaMalformed { msid: m.active.unwrap_or(5), shape: 0 });
    a.push(CAct::MetaMalformed { msid: m.active.unwrap_or(5), shape: 1 });
    a.push(CAct::Ping { ts: 0x0A0B_0C0D });
    a.push(CAct::PingBurst { ts: 0xFFFF_FFFF, n: 3 });
    a.push(CAct::PingOnStream { msid: m.active.unwrap_or(7), ts: 77 });
    a.push(CAct::Ack { n: 100 });
    a.push(CAct::UnknownCommand);
    a
}

impl Graph for G {
    type State = St;
    type Action = CAct;

    fn actions(&self, s: &St) -> Vec<CAct> {
        actions_for(&s.model, self.max_outstanding, self.extended)
    }

    fn step(&self, s: &St, a: &CAct) -> StepOut<St> {
        let mut out = StepOut::new();
        let mut n = s.clone();
        let fpb = n.h.fp_logic();
        let o = n.h.step(a);
        out.impl_steps += 1;
        let fpa = n.h.fp_logic();
        let outs = match decode_with_lib(&mut n.peer_de, &o.packets) {
            Ok(x) => x,
            Err(e) => {
                out.viol.push(("C10/undecodable-output".into(), format!("after {:?}: {}", a, e)));
                return out;
            }
        };
        let c = &self.c;
        match a {
            CAct::RequestConnection { .. } | CAct::RequestPlayback { .. } | CAct::RequestPublishing { .. } => c.inc(if o.packets.is_empty() { 1 } else { 0 }),
            CAct::PublishMeta { .. } | CAct::PublishVideo { .. } | CAct::PublishAudio { .. } => c.inc(if o.packets.is_empty() { 9 } else { 8 }),
            CAct::StopPlayback | CAct::StopPublishing if !o.packets.is_empty() => c.inc(6),
            CAct::Ping { .. } => c.inc(7),
            CAct::Result { .. } if !o.packets.is_empty() => c.inc(2),
            _ => {}
        }
        for e in o.events.iter() {
            match e {
                ClientSessionEvent::UnknownTransactionResultReceived { .. } => c.inc(3),
                ClientSessionEvent::PlaybackRequestAccepted | ClientSessionEvent::PublishRequestAccepted | ClientSessionEvent::ConnectionRequestAccepted => c.inc(4),
                ClientSessionEvent::AudioDataReceived { .. } | ClientSessionEvent::VideoDataReceived { .. } => c.inc(5),
                _ => {}
            }
        }
        match n.model.check(a, &o, &outs, &fpb, &fpa) {
            Ok(()) => out.succ.push(n),
            Err(e) => out.viol.push(e),
        }
        out
    }

    fn key(&self, s: &St) -> u128 {
        let mut v = s.h.fp_logic();
        v.push(0xCC);
        s.model.fingerprint(&mut v);
        hash128(&v)
    }

    fn describe(&self, a: &CAct) -> Value {
        describe_cact(a)
    }
}

pub fn fresh_state() -> St {
    let (h, _o) = ClientH::new(default_client_cfg(), 5_000).expect("client session");
    St { h, peer_de: ChunkDeserializer::new(), model: ClientModel::default() }
}

pub fn drive(g: &G, st: St, prefix: &[CAct]) -> Result<St, (String, String)> {
    let mut cur = st;
    for a in prefix {
        let o = g.step(&cur, a);
        if let Some(vv) = o.viol.into_iter().next() {
            return Err(vv);
        }
        cur = o.succ.into_iter().next().expect("successor");
    }
    Ok(cur)
}

pub fn prefixes() -> Vec<(&'static str, Vec<CAct>)> {
    let connected = vec![CAct::RequestConnection { app: APP_A.into() }, CAct::Result { tx: 1.0, stream: None }];
    let mut play_req = connected.clone();
    play_req.extend(vec![CAct::RequestPlayback { key: KEY1.into() }, CAct::Result { tx: 2.0, stream: Some(5.0) }]);
    let mut playing = play_req.clone();
    playing.push(CAct::OnStatus { code: "NetStream.Play.Start".into() });
    let mut pub_req = connected.clone();
    pub_req.extend(vec![CAct::RequestPublishing { key: KEY2.into(), kind: 0 }, CAct::Result { tx: 2.0, stream: Some(5.0) }]);
    let mut publishing = pub_req.clone();
    publishing.push(CAct::OnStatus { code: "NetStream.Publish.Start".into() });
    vec![
        ("from a fresh session", vec![]),
        ("from connected", connected),
        ("from play requested", play_req),
        ("from playing", playing),
        ("from publish requested", pub_req),
        ("from publishing", publishing),
    ]
}

pub fn run(run: &Run) {
    let thorough = run.thorough();
    let agg = Counters::new(&NAMES);
    let mut reports = Vec::new();
    let (mut ts, mut tt, mut ti) = (0u64, 0u64, 0u64);
    for (i, (name, prefix)) in prefixes().into_iter().enumerate() {
        let extended = thorough || i % 2 == 1;
        let depth = if thorough { 15 } else if extended { 10 } else { 12 };
        let g = G { c: Counters::new(&NAMES), max_outstanding: if thorough { 5 } else { 4 }, extended };
        let init = match drive(&g, fresh_state(), &prefix) {
            Ok(s) => s,
            Err((sig, d)) => {
                run.violation(&sig, &d, json!({"plan": name, "ops": prefix.iter().map(describe_cact).collect::<Vec<_>>()}));
                continue;
            }
        };
        let opts = BfsOptions { max_depth: Some(depth), max_states: Some(if thorough { 40_000_000 } else { 4_000_000 }), ..Default::default() };
        let (stats, viols) = bfs(&g, vec![init.clone()], &opts);
        run.sample_paths(name, &stats.sample_paths);
        ts += stats.states;
        tt += stats.transitions;
        ti += stats.impl_steps;
        for vv in viols {
            let mut ops: Vec<Value> = prefix.iter().map(describe_cact).collect();
            ops.extend(vv.path);
            run.violation(&vv.signature, &vv.detail, json!({"plan": name, "ops": ops}));
        }
        let nm = BfsOptions { max_depth: Some(if thorough { 4 } else { 3 }), merge: false, ..Default::default() };
        let (nstats, nviols) = bfs(&g, vec![init], &nm);
        ti += nstats.impl_steps;
        for vv in nviols {
            let mut ops: Vec<Value> = prefix.iter().map(describe_cact).collect();
            ops.extend(vv.path);
            run.violation(&vv.signature, &vv.detail, json!({"plan": name, "pass": "no-merge", "ops": ops}));
        }
        for k in 0..NAMES.len() {
            agg.add(k, g.c.get(k));
        }
        reports.push(json!({"plan": name, "prefix_len": prefix.len(), "depth_bound": depth, "extended_alphabet": extended, "states": stats.states,
            "transitions": stats.transitions, "level_sizes": stats.level_sizes, "no_merge_pass": {"depth": nm.max_depth, "paths": nstats.states}}));
    }
    // ---- long history: hundreds of play / publish cycles on one connection (transaction ids and stream ids far
    //      beyond what the bounded graphs reach) ----
    {
        let g = G { c: Counters::new(&NAMES), max_outstanding: 100_000, extended: false };
        let name = "300 play/publish cycles";
        let mut cur = fresh_state();
        let mut done: Vec<Value> = Vec::new();
        let mut ok = true;
        let mut steps = 0u64;
        let mut apply = |cur: &mut St, a: CAct, done: &mut Vec<Value>| -> bool {
            let o = g.step(cur, &a);
            ti += o.impl_steps;
            tt += 1;
            steps += 1;
            if done.len() < 40 {
                done.push(describe_cact(&a));
            }
            if let Some((sig, d)) = o.viol.into_iter().next() {
                run.violation(&format!("{}/long-history", sig), &format!("{} ; after {} steps of '{}'", d, steps, name), json!({"plan": name, "first_ops": done, "failing_op": describe_cact(&a)}));
                return false;
            }
            match o.succ.into_iter().next() {
                Some(n) => {
                    *cur = n;
                    true
                }
                None => false,
            }
        };
        let last_tx = |st: &St| st.model.out.keys().next_back().cloned().unwrap_or(0) as f64;
        ok = ok && apply(&mut cur, CAct::RequestConnection { app: APP_A.into() }, &mut done);
        let tx = last_tx(&cur);
        ok = ok && apply(&mut cur, CAct::Result { tx, stream: None }, &mut done);
        for cycle in 0..300u32 {
            if !ok {
                break;
            }
            let sid = 1 + cycle * 7;
            if cycle % 2 == 0 {
                ok = ok && apply(&mut cur, CAct::RequestPlayback { key: KEY1.into() }, &mut done);
                let tx = last_tx(&cur);
                ok = ok && apply(&mut cur, CAct::Result { tx, stream: Some(sid as f64) }, &mut done);
                ok = ok && apply(&mut cur, CAct::OnStatus { code: "NetStream.Play.Start".into() }, &mut done);
                ok = ok && apply(&mut cur, CAct::Audio { msid: sid, ts: cycle, len: 2 }, &mut done);
                ok = ok && apply(&mut cur, CAct::Video { msid: sid + 1, ts: cycle, len: 2 }, &mut done);
                ok = ok && apply(&mut cur, CAct::StopPlayback, &mut done);
                ok = ok && apply(&mut cur, CAct::Audio { msid: sid, ts: cycle, len: 2 }, &mut done);
            } else {
                ok = ok && apply(&mut cur, CAct::RequestPublishing { key: KEY2.into(), kind: (cycle % 3) as u8 % 2 }, &mut done);
                let tx = last_tx(&cur);
                ok = ok && apply(&mut cur, CAct::Result { tx, stream: Some(sid as f64) }, &mut done);
                ok = ok && apply(&mut cur, CAct::OnStatus { code: "NetStream.Publish.Start".into() }, &mut done);
                ok = ok && apply(&mut cur, CAct::PublishVideo { ts: cycle, len: 3, droppable: cycle % 4 == 1 }, &mut done);
                ok = ok && apply(&mut cur, CAct::PingBurst { ts: cycle, n: 2 }, &mut done);
                ok = ok && apply(&mut cur, CAct::StopPublishing, &mut done);
                ok = ok && apply(&mut cur, CAct::PublishAudio { ts: cycle, len: 1, droppable: false }, &mut done);
            }
        }
        run.count("long_history_steps", steps);
        if ok {
            run.count("long_history_scripts_completed", 1);
        }
    }
    run.merge_hist(&agg.map());
    run.set("states", json!(ts));
    run.set("transitions", json!(tt));
    run.set("traces_validated_against_impl", json!(ti));
    run.set("plans", json!(reports));
    run.set("exhaustive", json!(false));
    run.set("bound", json!("all action sequences up to the stated depth from each start state; <= 4 (quick) / 5 (thorough) outstanding transactions"));
    run.set("explanation", json!("every transition calls the real ClientSession (a public request/stop/publish call, or handle_input with a library-encoded server message) and compares emitted commands, events, Ok/Err and the logic fingerprint with the reference workflow model"));
    run.sample(json!({"ops": ["RequestConnection", "Result{1}", "RequestPlayback", "Result{2, stream 5}", "StopPlayback", "Meta{msid 5}"], "expect": "deleteStream(5) on stop, then no metadata event"}));
    run.assume("server messages are encoded and client output decoded with the library's own codec; nodes are keyed by the session's logic fingerprint + model state");
    if run.violation_count() == 0 {
        run.require_hist(&["requests_emitted", "requests_refused", "results_applied", "unknown_tx_reported", "accepted_events", "media_events", "stops", "pings_echoed", "publishes_emitted", "publishes_refused"]);
    }
}
