//! C04 — AMF0 encode-then-decode is the identity (or encoding reports an error).
//! C12 — AMF0 wire format conforms to the specification in both directions.
//! E3: bounded-exhaustive enumeration of value forests over staged menus; oracle R3.

use crate::ev::Run;
use crate::refmodel::amf0::{self as r3, canon_seq, EcmaCount, EncOpts, V};
use crate::util::{guarded, hex};
use rayon::prelude::*;
use serde_json::{json, Value};
use std::io::Cursor;
use std::sync::atomic::{AtomicU64, Ordering};

fn num(f: f64) -> V {
    V::Num(f.to_bits())
}

fn atoms_full() -> Vec<V> {
    let mut v = vec![
        num(0.0), num(-0.0), num(1.0), num(-1.0), V::Num(1), num(f64::MAX), num(f64::INFINITY), num(f64::NEG_INFINITY),
        V::Num(0x7FF8_0000_0000_0000), V::Num(0x7FF0_0000_0000_0001), V::Num(0xFFF8_0000_0000_0001), num(9007199254740993.0),
        V::Bool(false), V::Bool(true), V::Null, V::Undef,
    ];
    for s in strings_full() {
        v.push(V::Str(s));
    }
    v
}

/// Lengths whose big-endian u16 bytes collide with marker bytes (00, 09) or sit on byte boundaries.
const COLLIDING_LENGTHS: [usize; 7] = [9, 255, 256, 0x0900, 0x0909, 0x0A00, 0x0300];

fn strings_full() -> Vec<String> {
    let mut v = vec![
        "".to_string(), "a".to_string(), "\u{e9}".to_string(), "\u{1D11E}".to_string(),
        "x".repeat(65535), "y".repeat(65536),
        // non-ASCII strings around the limit: <= 65535 characters but more bytes, and exactly at the limit
        "\u{e9}".repeat(32768), format!("{}a", "\u{e9}".repeat(32767)), "\u{1D11E}".repeat(16384),
    ];
    for l in COLLIDING_LENGTHS {
        v.push("s".repeat(l));
    }
    // content a decoder might be tempted to normalise or mistake for structure: NUL at either end, surrounding
    // white space, a tab (09 = object-end marker), and the byte sequence of an object terminator
    for t in ["\u{0}", "ab\u{0}", "\u{0}ab", " ab ", "\t", "a\n", "\u{0}\u{0}\t", "\u{feff}a"] {
        v.push(t.to_string());
    }
    v.extend(straddlers());
    v
}

/// Long non-ASCII text in which EVERY byte offset that is not a multiple of 4 (first string), respectively
/// every offset that is not 1 mod 4 (second, shifted by one ASCII byte), lies inside a 4-byte character: any
/// fixed-size buffering, truncation or validation step (255, 256, 1024, 4096, 65535 ...) cuts a character in one
/// of the two.  Lengths: just above 4 KiB, and at the 65,535-byte limit.
pub fn straddlers() -> Vec<String> {
    let g = "\u{1D11E}";
    vec![
        g.repeat(1100), format!("a{}", g.repeat(1100)), format!("ab{}", g.repeat(1100)), format!("abc{}", g.repeat(1100)),
        format!("{}abc", g.repeat(16383)), format!("a{}ab", g.repeat(16383)),
        "\u{20AC}".repeat(1400), format!("a{}", "\u{e9}".repeat(2100)),
    ]
}

fn names_full() -> Vec<String> {
    let mut v = vec![
        "".to_string(), "a".to_string(), "b".to_string(), "\u{e9}".to_string(), "n".repeat(65535), "m".repeat(65536),
        "\u{e9}".repeat(32768), format!("{}a", "\u{e9}".repeat(32767)),
    ];
    for l in COLLIDING_LENGTHS {
        v.push("k".repeat(l));
    }
    for t in ["\u{0}", "a\u{0}", " a", "\t", "\u{0}\u{0}\t"] {
        v.push(t.to_string());
    }
    // a name whose ninth byte is a tab and whose length has 09 as its high byte
    v.push(format!("nnnnnnnn\t{}", "n".repeat(0x0900 + 20)));
    v.extend(straddlers());
    v
}

fn atoms_small() -> Vec<V> {
    vec![num(1.0), V::Num(0x7FF8_0000_0000_0000), V::Bool(true), V::Str("".into()), V::Str("a".into()), V::Null]
}

/// All containers (object and strict array) with 0..=max children drawn from `menu`
/// (objects use the names a, b, c in order).
fn containers(menu: &[V], max: usize) -> Vec<V> {
    let names = ["a", "b", "c"];
    let mut out = Vec::new();
    let mut idx = vec![0usize; 0];
    for n in 0..=max {
        idx.clear();
        idx.resize(n, 0);
        loop {
            let kids: Vec<V> = idx.iter().map(|&i| menu[i].clone()).collect();
            out.push(V::Arr(kids.clone()));
            out.push(V::Obj(kids.into_iter().enumerate().map(|(i, k)| (names[i].to_string(), k)).collect()));
            // odometer
            let mut p = 0;
            loop {
                if p == n {
                    break;
                }
                idx[p] += 1;
                if idx[p] < menu.len() {
                    break;
                }
                idx[p] = 0;
                p += 1;
            }
            if p == n {
                break;
            }
        }
    }
    out
}

pub fn forests(thorough: bool) -> (Vec<Vec<V>>, Value) {
    let full = atoms_full();
    let small = atoms_small();
    let mut values: Vec<V> = Vec::new();
    values.extend(full.iter().cloned());
    // level 1 over the small menu
    let l1 = containers(&small, 3);
    // containers over the FULL atom menu in every child position
    values.extend(containers(&full, 2));
    if thorough {
        // three children: the full menu minus the long strings (two representatives of those stay)
        let reduced: Vec<V> = full.iter().filter(|v| match v {
            V::Str(t) => t.len() <= 300 || *t == "x".repeat(65535) || *t == format!("a{}", "\u{1D11E}".repeat(1100)),
            _ => true,
        }).cloned().collect();
        values.extend(containers(&reduced, 3).into_iter().filter(|v| match v { V::Arr(k) => k.len() == 3, V::Obj(k) => k.len() == 3, _ => false }));
    }
    values.extend(l1.iter().cloned());
    // level 1 with one focus child from the full atom menu / full name menu, other child small
    for a in full.iter() {
        values.push(V::Arr(vec![a.clone()]));
        values.push(V::Arr(vec![V::Null, a.clone()]));
        values.push(V::Obj(vec![("a".into(), a.clone())]));
        values.push(V::Obj(vec![("a".into(), V::Null), ("b".into(), a.clone())]));
    }
    for n in names_full() {
        values.push(V::Obj(vec![(n.clone(), num(1.0))]));
        values.push(V::Obj(vec![("p".into(), V::Null), (n.clone(), V::Bool(true))]));
        values.push(V::Obj(vec![(n.clone(), V::Str("a".into())), ("q".into(), V::Null)]));
        values.push(V::Arr(vec![V::Obj(vec![(n.clone(), V::Null)])]));
    }
    // names that differ only in case, in a trailing blank / NUL, or in Unicode normalisation form: distinct names
    // (byte-for-byte), so both properties must survive
    for (n1, n2) in [("Width", "width"), ("\u{c9}t\u{e9}", "\u{e9}t\u{e9}"), ("a", "a "), ("a", "a\u{0}"), ("\u{e9}", "e\u{301}"), ("k", "K"), ("1", "01"), ("x", "\u{feff}x")] {
        values.push(V::Obj(vec![(n1.into(), num(1.0)), (n2.into(), num(2.0))]));
        values.push(V::Arr(vec![V::Obj(vec![(n2.into(), V::Str(n1.into())), (n1.into(), V::Str(n2.into())), ("z".into(), V::Null)])]));
    }
    // wide containers: element / property counts around powers of two and byte boundaries
    for n in [4usize, 16, 255, 256, 257, 1023, 1024, 1025, 4096, 65_535, 65_536, 65_537] {
        values.push(V::Arr(vec![V::Null; n]));
        if n <= 4096 {
            values.push(V::Arr((0..n).map(|i| num(i as f64)).collect()));
            values.push(V::Arr(vec![V::Arr(vec![V::Bool(true); n]), V::Str("after".into())]));
            values.push(V::Obj((0..n).map(|i| (format!("p{}", i), if i % 2 == 0 { V::Null } else { num(i as f64) })).collect()));
            values.push(V::Obj(vec![("list".into(), V::Arr(vec![V::Null; n])), ("z".into(), V::Bool(false))]));
        }
    }
    // wide containers whose children are containers themselves
    for n in [16usize, 127, 128, 129, 130, 256, 1025] {
        values.push(V::Obj((0..n).map(|i| (format!("c{}", i), V::Arr(vec![V::Null]))).collect()));
        values.push(V::Obj((0..n).map(|i| (format!("o{}", i), V::Obj(vec![("a".into(), num(i as f64))]))).collect()));
        values.push(V::Arr((0..n).map(|i| V::Obj(vec![("a".into(), num(i as f64))])).collect()));
        values.push(V::Arr(vec![V::Arr(vec![V::Str("x".into())]); n]));
        if n <= 130 {
            // two levels of wide objects: n objects of n arrays each would be large; use n x 70
            values.push(V::Obj((0..n).map(|i| (format!("w{}", i), V::Obj((0..70).map(|j| (format!("v{}", j), V::Arr(vec![V::Bool(j % 2 == 0)]))).collect()))).collect()));
        }
    }
    // deep nests up to the decoder's documented limit of 128 levels: uniform, alternating, and a run of one kind
    // below a short prefix of another (a depth counter that advances by two per object level refuses 65 objects)
    for d in [20usize, 63, 64, 65, 100, 126, 127, 128] {
        let nest = |pattern: &[u8], depth: usize| -> V {
            let mut v = V::Str("core".into());
            for i in (0..depth).rev() {
                v = match pattern[i % pattern.len()] {
                    b'A' => V::Arr(vec![v]),
                    _ => V::Obj(vec![("k".into(), v)]),
                };
            }
            v
        };
        values.push(nest(b"A", d));
        values.push(nest(b"O", d));
        values.push(nest(b"AO", d));
        values.push(nest(b"OOA", d));
        values.push(V::Arr(vec![nest(b"O", d - 1), num(d as f64)]));
        values.push(V::Obj(vec![("first".into(), V::Null), ("deep".into(), nest(b"A", d - 1))]));
    }
    // representative level-1 composites used as children at level 2
    let l1s: Vec<V> = vec![
        V::Arr(vec![]), V::Obj(vec![]), V::Arr(vec![num(1.0)]), V::Obj(vec![("a".into(), V::Bool(true))]),
        V::Arr(vec![V::Null, V::Str("a".into())]), V::Obj(vec![("a".into(), V::Null), ("b".into(), V::Str("".into()))]),
        V::Obj(vec![("".into(), V::Null)]), V::Arr(vec![V::Str("y".repeat(65536))]),
    ];
    let mut menu2: Vec<V> = small.iter().take(3).cloned().collect();
    menu2.extend(l1s.iter().cloned());
    let l2 = containers(&menu2, if thorough { 3 } else { 2 });
    values.extend(l2.iter().cloned());
    // representative level-2 composites used as children at level 3
    let l2s: Vec<V> = vec![
        V::Arr(vec![V::Arr(vec![])]), V::Obj(vec![("a".into(), V::Obj(vec![]))]),
        V::Arr(vec![V::Obj(vec![("a".into(), V::Bool(true))]), num(1.0)]),
        V::Obj(vec![("a".into(), V::Arr(vec![V::Null, V::Str("a".into())])), ("b".into(), V::Obj(vec![("a".into(), V::Null), ("b".into(), V::Str("".into()))]))]),
        V::Arr(vec![V::Obj(vec![("".into(), V::Null)])]),
    ];
    let mut menu3: Vec<V> = vec![V::Null, num(1.0)];
    menu3.extend(l2s.iter().cloned());
    let l3 = containers(&menu3, 3);
    values.extend(l3.iter().cloned());
    if thorough {
        // depth 4 through the representative level-3 composites
        let l3s: Vec<V> = vec![V::Arr(vec![l2s[2].clone()]), V::Obj(vec![("a".into(), l2s[3].clone())])];
        let mut menu4: Vec<V> = vec![V::Null];
        menu4.extend(l3s);
        values.extend(containers(&menu4, 2));
    }
    let nvalues = values.len();
    let mut fs: Vec<Vec<V>> = values.iter().map(|v| vec![v.clone()]).collect();
    // sequences of 2 and 3 over a representative subset
    let mut rep: Vec<V> = vec![
        num(1.0), V::Bool(true), V::Str("a".into()), V::Null, V::Undef, V::Str("".into()),
        V::Arr(vec![]), V::Obj(vec![]), V::Obj(vec![("a".into(), V::Null)]), V::Arr(vec![V::Bool(false), V::Null]),
        V::Obj(vec![("a".into(), V::Arr(vec![V::Null])), ("b".into(), num(-0.0))]),
        V::Str("x".repeat(65535)), V::Obj(vec![("".into(), V::Null)]), V::Str("y".repeat(65536)),
    ];
    rep.extend(l1s.iter().cloned());
    rep.extend(l2s.iter().cloned());
    if thorough {
        rep.extend(full.iter().cloned());
        rep.extend(vec![V::Num(0x7FF0_0000_0000_0001), V::Arr(vec![V::Arr(vec![V::Arr(vec![])])]), V::Obj(vec![("n".repeat(65535), V::Null)]), V::Obj(vec![("m".repeat(65536), V::Null)])]);
    }
    for a in rep.iter() {
        for b in rep.iter() {
            fs.push(vec![a.clone(), b.clone()]);
        }
    }
    // every number first, followed by every atom (a leading 00 byte is also a format byte in
    // "AMF3-typed" RTMP bodies, so number-first sequences matter to C13)
    for a in full.iter().filter(|v| matches!(v, V::Num(_))) {
        for b in full.iter() {
            if !matches!(b, V::Str(s) if s.len() > 1000) {
                fs.push(vec![a.clone(), b.clone()]);
                fs.push(vec![a.clone(), b.clone(), V::Str("x".into()), num(7.0)]);
            }
        }
    }
    let rep3: Vec<V> = rep.iter().take(if thorough { 18 } else { 12 }).cloned().collect();
    for a in rep3.iter() {
        for b in rep3.iter() {
            for c in rep3.iter() {
                fs.push(vec![a.clone(), b.clone(), c.clone()]);
            }
        }
    }
    let desc = json!({
        "atoms": "12 number bit patterns (+-0, +-1, min subnormal, max, +-inf, quiet/signalling/negative NaN, 2^53+1), true/false, null, undefined, strings \"\", a, e-acute, U+1D11E, 65535 and 65536 ASCII bytes, 32768 x e-acute (65536 bytes), 32767 x e-acute + a (65535 bytes), 16384 x U+1D11E, and lengths 9, 255, 256, 0x0300, 0x0900, 0x0909, 0x0A00 (length bytes colliding with marker bytes)",
        "property_names": "\"\", a, b, e-acute, 65535 bytes, 65536 bytes, non-ASCII names of 65535/65536 bytes, and the marker-colliding lengths",
        "distinct_values": nvalues,
        "wide_containers": "arrays of 4..65537 elements and objects of 4..4096 properties (counts around 256, 1024, 4096, 65536), also nested and followed by further values",
        "sequences": "every value alone; all pairs over a representative subset; all triples over a smaller subset",
        "max_depth": if thorough { 4 } else { 3 },
        "forests": fs.len(),
    });
    (fs, desc)
}

fn short(vs: &[V]) -> String {
    let s = format!("{:?}", vs);
    if s.chars().count() > 300 {
        format!("{}...({} chars)", s.chars().take(300).collect::<String>(), s.chars().count())
    } else {
        s
    }
}

fn shape(vs: &[V]) -> String {
    // coarse class of a forest, used in signatures
    fn has(v: &V, f: &dyn Fn(&V) -> bool) -> bool {
        if f(v) {
            return true;
        }
        match v {
            V::Obj(p) => p.iter().any(|(_, x)| has(x, f)),
            V::Arr(a) => a.iter().any(|x| has(x, f)),
            _ => false,
        }
    }
    let any = |f: &dyn Fn(&V) -> bool| vs.iter().any(|v| has(v, f));
    if any(&|v| matches!(v, V::Obj(p) if p.iter().any(|(k, _)| k.is_empty()))) {
        return "object-with-empty-property-name".into();
    }
    if any(&|v| matches!(v, V::Obj(p) if p.iter().any(|(k, _)| k.len() > 65535))) {
        return "object-with-property-name-over-65535-bytes".into();
    }
    if any(&|v| matches!(v, V::Str(s) if s.len() > 65535)) {
        return "string-over-65535-bytes".into();
    }
    if any(&|v| matches!(v, V::Num(b) if f64::from_bits(*b).is_nan())) {
        return "nan".into();
    }
    if any(&|v| matches!(v, V::Obj(_))) {
        return "object".into();
    }
    if any(&|v| matches!(v, V::Arr(_))) {
        return "array".into();
    }
    "atoms".into()
}

/// A reader that hands out at most `step` bytes per `read` call (what a socket, `BufReader` or `chain` may do).
struct Dribble<'a> {
    data: &'a [u8],
    pos: usize,
    step: usize,
}

impl<'a> std::io::Read for Dribble<'a> {
    fn read(&mut self, buf: &mut [u8]) -> std::io::Result<usize> {
        let n = buf.len().min(self.step).min(self.data.len() - self.pos);
        buf[..n].copy_from_slice(&self.data[self.pos..self.pos + n]);
        self.pos += n;
        Ok(n)
    }
}

/// Decodes through a `Cursor` and through a short-read reader; the two must agree (the decoder is generic over
/// `Read`, and a conformant encoding does not stop being one because it arrives in pieces).
fn lib_decode(bytes: &[u8]) -> Result<Result<(Vec<V>, u64), String>, String> {
    guarded(|| {
        let mut c = Cursor::new(bytes);
        let first = match rml_amf0::deserialize(&mut c) {
            Ok(v) => Ok((r3::from_lib_seq(&v), c.position())),
            Err(e) => Err(format!("{:?}", e)),
        };
        let mut d = Dribble { data: bytes, pos: 0, step: if bytes.len() <= 4096 { 1 } else { 4093 } };
        let second = match rml_amf0::deserialize(&mut d) {
            Ok(v) => Ok((r3::from_lib_seq(&v), d.pos as u64)),
            Err(e) => Err(format!("{:?}", e)),
        };
        match (&first, &second) {
            (Ok(a), Ok(b)) if a == b => first,
            (Err(_), Err(_)) => first,
            _ => Err(format!("READER-DEPENDENT RESULT: through a Cursor {:?}, through a reader that returns at most {} bytes per read call {:?}",
                first.as_ref().map(|x| x.1).map_err(|e| e.chars().take(80).collect::<String>()), d.step, second.as_ref().map(|x| x.1).map_err(|e| e.chars().take(80).collect::<String>()))),
        }
    })
}

pub fn run_c04(run: &Run) {
    let (fs, desc) = forests(run.thorough());
    run.set("enumerated_space", desc);
    let evals = AtomicU64::new(0);
    let ok_roundtrips = AtomicU64::new(0);
    let refused = AtomicU64::new(0);
    fs.par_iter().for_each(|f| {
        evals.fetch_add(1, Ordering::Relaxed);
        let lib_vals: Vec<rml_amf0::Amf0Value> = f.iter().map(r3::to_lib).collect();
        let enc = guarded(|| rml_amf0::serialize(&lib_vals));
        let replay = json!({"forest": short(f)});
        let bytes = match enc {
            Err(p) => {
                run.violation(&format!("C04/serialize-panic/{}", shape(f)), &format!("serialize panicked: {} on {}", p, short(f)), replay);
                return;
            }
            Ok(Err(_)) => {
                refused.fetch_add(1, Ordering::Relaxed);
                return;
            }
            Ok(Ok(b)) => b,
        };
        match lib_decode(&bytes) {
            Err(p) => run.violation(&format!("C04/deserialize-panic/{}", shape(f)), &format!("deserialize panicked: {} on own encoding of {}", p, short(f)), replay),
            Ok(Err(e)) => run.violation(
                &format!("C04/encoded-bytes-do-not-decode/{}", shape(f)),
                &format!("serialize returned Ok but its {} bytes fail to decode ({}); values {}; bytes {}", bytes.len(), e, short(f), hex(&bytes[..bytes.len().min(48)])),
                replay,
            ),
            Ok(Ok((back, pos))) => {
                if back != canon_seq(f) {
                    run.violation(
                        &format!("C04/decodes-to-something-else/{}", shape(f)),
                        &format!("encoded {} decodes to {}", short(f), short(&back)),
                        replay,
                    );
                } else if pos != bytes.len() as u64 {
                    run.violation(&format!("C04/bytes-left-over/{}", shape(f)), &format!("decoder consumed {} of {} bytes for {}", pos, bytes.len(), short(f)), replay);
                } else {
                    ok_roundtrips.fetch_add(1, Ordering::Relaxed);
                }
            }
        }
    });
    let e = evals.load(Ordering::Relaxed);
    run.set("evaluations", json!(e));
    run.set("distinct_nontrivial", json!(e));
    run.set("rule", json!("every forest of the enumerated space once (the forests are pairwise distinct by construction); non-trivial = all (each exercises serialize and, when accepted, deserialize)"));
    run.set("exhaustive", json!(true));
    run.count("round_trips_ok", ok_roundtrips.load(Ordering::Relaxed));
    run.count("refused_by_encoder", refused.load(Ordering::Relaxed));
    run.sample(json!({"forest": short(&fs[fs.len() / 2])}));
    run.sample(json!({"forest": short(&fs[40])}));
    run.assume("numbers are compared bit-for-bit, objects as unordered maps, strings byte-for-byte");
    if run.violation_count() == 0 {
        run.require_hist(&["round_trips_ok", "refused_by_encoder"]);
    }
}

// ------------------------------------------------------------------------------------------
// C12
// ------------------------------------------------------------------------------------------

fn permute_props(v: &V, mode: u8) -> V {
    match v {
        V::Obj(p) => {
            let mut q: Vec<(String, V)> = p.iter().map(|(k, x)| (k.clone(), permute_props(x, mode))).collect();
            match mode {
                1 => q.reverse(),
                2 => {
                    if q.len() > 1 {
                        q.rotate_left(1);
                    }
                }
                3 => {
                    if q.len() > 2 {
                        q.swap(0, 1);
                    }
                }
                _ => {}
            }
            V::Obj(q)
        }
        V::Arr(a) => V::Arr(a.iter().map(|x| permute_props(x, mode)).collect()),
        x => x.clone(),
    }
}

pub fn run_c12(run: &Run) {
    let thorough = run.thorough();
    let (fs, desc) = forests(thorough);
    run.set("enumerated_space", desc);
    let evals = AtomicU64::new(0);
    let enc_checked = AtomicU64::new(0);
    let dec_checked = AtomicU64::new(0);
    let trunc_checked = AtomicU64::new(0);
    let ecma_checked = AtomicU64::new(0);
    let bool_checked = AtomicU64::new(0);

    fs.par_iter().for_each(|f| {
        let ok = f.iter().all(r3::encodable);
        let replay = json!({"forest": short(f)});
        // ---- encoder side ----
        let lib_vals: Vec<rml_amf0::Amf0Value> = f.iter().map(r3::to_lib).collect();
        evals.fetch_add(1, Ordering::Relaxed);
        match guarded(|| rml_amf0::serialize(&lib_vals)) {
            Err(p) => {
                run.violation(&format!("C12/serialize-panic/{}", shape(f)), &p, replay.clone());
            }
            Ok(Err(_)) => {
                if ok {
                    run.violation(&format!("C12/encoder-refuses-encodable-value/{}", shape(f)), &format!("serialize refused {}", short(f)), replay.clone());
                }
            }
            Ok(Ok(bytes)) => {
                if ok {
                    // what the specification prescribes, for the property order the encoder chose
                    match r3::decode_seq(&bytes) {
                        Err(e) => run.violation(&format!("C12/encoder-output-not-spec-decodable/{}", shape(f)), &format!("reference decoder: {} on {} for {}", e, hex(&bytes[..bytes.len().min(64)]), short(f)), replay.clone()),
                        Ok(ordered) => {
                            if canon_seq(&ordered) != canon_seq(f) {
                                run.violation(&format!("C12/encoder-output-denotes-other-value/{}", shape(f)), &format!("{} encoded as bytes denoting {}", short(f), short(&ordered)), replay.clone());
                            } else {
                                let spec_bytes = r3::encode_seq(&ordered, &EncOpts::default());
                                if spec_bytes != bytes {
                                    run.violation(&format!("C12/encoder-bytes-differ-from-spec/{}", shape(f)), &format!("library {} vs specification {}", hex(&bytes[..bytes.len().min(64)]), hex(&spec_bytes[..spec_bytes.len().min(64)])), replay.clone());
                                } else {
                                    enc_checked.fetch_add(1, Ordering::Relaxed);
                                }
                            }
                        }
                    }
                }
                if !ok {
                    // a value the format cannot express (string or name above 65,535 bytes, empty name) was
                    // encoded anyway: whatever the bytes are, they are not a u16-length-prefixed encoding of it
                    let denotes_it = r3::decode_seq(&bytes).map(|d| canon_seq(&d) == canon_seq(f)).unwrap_or(false);
                    if !denotes_it {
                        run.violation(&format!("C12/encoder-output-for-inexpressible-value/{}", shape(f)), &format!("serialize accepted {} and produced {} bytes that do not denote it", short(f), bytes.len()), replay.clone());
                    }
                }
            }
        }
        if !ok {
            return;
        }
        // ---- decoder side: every reference encoding of the forest ----
        let want = canon_seq(f);
        let mut variants: Vec<(String, Vec<u8>)> = Vec::new();
        for mode in 0..4u8 {
            let g: Vec<V> = f.iter().map(|v| permute_props(v, mode)).collect();
            if mode > 0 && g == *f {
                continue;
            }
            variants.push((format!("object/property-order-{}", mode), r3::encode_seq(&g, &EncOpts::default())));
            for c in [EcmaCount::Zero, EcmaCount::Exact, EcmaCount::PlusOne, EcmaCount::Max] {
                if mode < 2 {
                    variants.push((format!("ecma-array/count-{:?}/order-{}", c, mode), r3::encode_seq(&g, &EncOpts { true_byte: 1, ecma_count: Some(c) })));
                }
            }
        }
        for tb in [2u8, 0xFF] {
            variants.push((format!("boolean-true-as-{:#04x}", tb), r3::encode_seq(f, &EncOpts { true_byte: tb, ecma_count: None })));
        }
        let base = variants[0].1.clone();
        let mut seen: Vec<Vec<u8>> = Vec::new();
        for (name, bytes) in variants {
            if seen.contains(&bytes) {
                continue;
            }
            evals.fetch_add(1, Ordering::Relaxed);
            if name.starts_with("ecma") {
                ecma_checked.fetch_add(1, Ordering::Relaxed);
            }
            if name.starts_with("boolean") {
                bool_checked.fetch_add(1, Ordering::Relaxed);
            }
            let cls = name.split('/').next().unwrap_or("").to_string();
            match lib_decode(&bytes) {
                Err(p) => run.violation(&format!("C12/decoder-panic/{}", cls), &format!("{}: {} on {}", name, p, hex(&bytes[..bytes.len().min(64)])), replay.clone()),
                Ok(Err(e)) => run.violation(&format!("C12/decoder-rejects-conformant-encoding/{}", cls), &format!("{}: {} on {} denoting {}", name, e, hex(&bytes[..bytes.len().min(64)]), short(f)), replay.clone()),
                Ok(Ok((back, pos))) => {
                    if back != want || pos != bytes.len() as u64 {
                        run.violation(&format!("C12/decoder-wrong-value/{}", cls), &format!("{}: bytes {} denote {} but decode to {} (consumed {}/{})", name, hex(&bytes[..bytes.len().min(64)]), short(f), short(&back), pos, bytes.len()), replay.clone());
                    } else {
                        dec_checked.fetch_add(1, Ordering::Relaxed);
                    }
                }
            }
            seen.push(bytes);
        }
        // ---- every truncation point ----
        if base.len() <= (if thorough { 400 } else { 120 }) || (f.len() == 1 && base.len() > 65000 && base.len() < 66000) {
            let points: Vec<usize> = if base.len() <= 400 { (0..base.len()).collect() } else {
                // long strings: around the header, the middle and the end
                let mut p: Vec<usize> = (0..8).collect();
                p.extend([base.len() / 2, base.len() - 2, base.len() - 1]);
                p
            };
            for t in points {
                evals.fetch_add(1, Ordering::Relaxed);
                match lib_decode(&base[..t]) {
                    Err(p) => run.violation("C12/decoder-panic/truncated", &format!("{} on {} truncated to {} bytes", p, hex(&base[..base.len().min(64)]), t), replay.clone()),
                    Ok(Err(_)) => {
                        trunc_checked.fetch_add(1, Ordering::Relaxed);
                    }
                    Ok(Ok((back, _))) => {
                        if !r3::is_prefix_seq(&back, f) {
                            run.violation("C12/truncated-input-yields-data-that-was-not-there", &format!("{} truncated to {} bytes decodes to {} (full value {})", hex(&base[..base.len().min(64)]), t, short(&back), short(f)), replay.clone());
                        } else {
                            trunc_checked.fetch_add(1, Ordering::Relaxed);
                        }
                    }
                }
            }
        }
    });

    // ---- all 256 marker bytes in every value position ----
    let mut marker_cases = 0u64;
    let supported = [0u8, 1, 2, 3, 5, 6, 8, 10];
    for m in 0..=255u8 {
        if supported.contains(&m) || m == 9 {
            continue; // 9 in value position is the object-end marker, not a type: not judged
        }
        // nothing, filler, and the exact payloads the AMF0 specification gives the unsupported types: reference (u16),
        // date (double + s16), long string / XML document (u32 length + text), typed object (class name + members),
        // so that a decoder which "also understands" one of them yields a value with nothing left over
        let tails: Vec<Vec<u8>> = vec![vec![], vec![0; 8], vec![0, 1, b'a', 5, 0, 0, 9], vec![0, 0], vec![0, 0, 0, 0], vec![0, 0, 0, 1, b'x'], vec![0; 10],
            vec![0, 1, b'c', 0, 0, 9], vec![0, 1, b'c', 0, 1, b'a', 5, 0, 0, 9], vec![0, 0, 9], vec![0], vec![0, 0, 0, 2, 0xC3, 0xA9]];
        for tail in tails.iter() {
            let mut top = vec![m];
            top.extend(tail);
            let mut in_arr = vec![10, 0, 0, 0, 1, m];
            in_arr.extend(tail);
            let mut in_obj = vec![3, 0, 1, b'a', m];
            in_obj.extend(tail);
            in_obj.extend([0, 0, 9]);
            let mut after = vec![5, m];
            after.extend(tail);
            let mut in_ecma = vec![8, 0, 0, 0, 1, 0, 1, b'a', m];
            in_ecma.extend(tail);
            for (pos_name, bytes) in [("top-level", top), ("array-element", in_arr), ("property-value", in_obj), ("second-value", after), ("ecma-property-value", in_ecma)] {
                marker_cases += 1;
                match lib_decode(&bytes) {
                    Ok(Err(_)) => {}
                    Err(p) => run.violation("C12/decoder-panic/unsupported-marker", &format!("marker {} at {}: {}", m, pos_name, p), json!({"bytes": hex(&bytes)})),
                    Ok(Ok((back, _))) => run.violation(
                        &format!("C12/unsupported-marker-accepted/{}", pos_name),
                        &format!("marker {} ({:#04x}) at {} decoded to {} instead of an error; bytes {}", m, m, pos_name, short(&back), hex(&bytes)),
                        json!({"bytes": hex(&bytes)}),
                    ),
                }
            }
        }
    }
    let e = evals.load(Ordering::Relaxed) + marker_cases;
    run.set("evaluations", json!(e));
    run.set("distinct_nontrivial", json!(e));
    run.set("rule", json!("one evaluation per (forest, direction, reference-encoding variant) with byte-identical variants removed, per truncation point, and per (marker byte, position, tail); all are distinct inputs to serialize/deserialize"));
    run.set("exhaustive", json!(true));
    run.count("encoder_outputs_byte_identical_to_spec", enc_checked.load(Ordering::Relaxed));
    run.count("reference_encodings_decoded_correctly", dec_checked.load(Ordering::Relaxed));
    run.count("ecma_array_encodings", ecma_checked.load(Ordering::Relaxed));
    run.count("boolean_nonstandard_true_encodings", bool_checked.load(Ordering::Relaxed));
    run.count("truncations_ok", trunc_checked.load(Ordering::Relaxed));
    run.count("unsupported_marker_cases", marker_cases);
    run.sample(json!({"reference_encoding": "08 ffffffff 0001 61 05 000009", "denotes": "Object{a: Null}", "variant": "ecma-array/count-Max"}));
    run.sample(json!({"forest": short(&fs[fs.len() / 3])}));
    run.assume("R3 is a faithful reading of the AMF0 specification (unit-tested against hand-computed vectors); byte 0x09 in value position is the object-end marker and is not judged");
    if run.violation_count() == 0 {
        run.require_hist(&["encoder_outputs_byte_identical_to_spec", "reference_encodings_decoded_correctly", "ecma_array_encodings", "boolean_nonstandard_true_encodings", "truncations_ok", "unsupported_marker_cases"]);
    }
}
