//! C19 — every configuration value is either honoured or refused, never a hang.
//! E4: configuration/argument value menus x entry points, each case in a child process with a wall
//! clock cap and an address-space cap; an accepted value must yield a working codec/session
//! (mini C01 / mini C02).

use super::c02::{default_scenario, run_default};
use crate::child::{result_json, run_case, Exit};
use crate::ev::Run;
use crate::refmodel::chunk::{Msg, SpecEncoder};
use crate::util::{guarded, pattern};
use bytes::Bytes;
use rayon::prelude::*;
use rml_rtmp::chunk_io::{ChunkDeserializer, ChunkSerializer};
use rml_rtmp::messages::MessagePayload;
use rml_rtmp::sessions::{ClientSession, ClientSessionConfig, ClientSessionResult, ServerSession, ServerSessionConfig, ServerSessionResult};
use rml_rtmp::time::RtmpTimestamp;
use serde_json::json;
use std::sync::atomic::{AtomicU64, Ordering};

fn thorough_modes() -> bool {
    std::env::var("VCHECK_C19_TWO_ACTIVITIES").is_ok()
}

/// Values for which both a refusal and acceptance are fine: application names and stream keys are
/// embedded in longer status strings ("Successfully connected on app: ..."), so names within ~130
/// bytes of the 65,535-byte AMF0 limit may legitimately be refused when such a string is built.
fn may_refuse(kind: &str, v: u64) -> bool {
    let kind = kind.trim_end_matches("_utf8");
    (kind == "app_len" || kind == "key_len") && v > 65_400
}

fn must_refuse(kind: &str, v: u64) -> bool {
    if kind.contains("chunk") {
        return v == 0 || v > 0x7FFF_FFFF;
    }
    let kind = kind.trim_end_matches("_utf8");
    if kind.ends_with("_len") && !kind.starts_with("payload") {
        return v > 65_535;
    }
    if kind.starts_with("payload") {
        return v > 16_777_215;
    }
    false
}

fn mini_c01(ser: &mut ChunkSerializer, de: &mut ChunkDeserializer, cs: u64) -> Result<(), String> {
    let mut lens: Vec<usize> = vec![0, 5, 300];
    if cs <= 70_000 {
        lens.push(cs as usize + 1);
        lens.push(2 * cs as usize);
    }
    // (type, length): video of several sizes, then protocol-control and audio messages on their own chunk streams
    let mut items: Vec<(u8, usize)> = lens.into_iter().map(|l| (9u8, l)).collect();
    items.extend([(3u8, 4usize), (8, 0), (3, 4), (20, 7)]);
    for (i, (ty, len)) in items.into_iter().enumerate() {
        let data = pattern(i as u32 + 1, len);
        let msid = if ty == 3 { 0 } else { 1 };
        let m = MessagePayload { timestamp: RtmpTimestamp::new(10 * i as u32), type_id: ty, message_stream_id: msid, data: Bytes::from(data.clone()) };
        let p = ser.serialize(&m, false, false).map_err(|e| format!("serialize failed: {:?}", e))?;
        let got = de.get_next_message(&p.bytes).map_err(|e| format!("deserialize failed for a type {} message of {} bytes: {:?}", ty, len, e))?;
        match got {
            Some(g) if g.data[..] == data[..] && g.timestamp.value == 10 * i as u32 && g.type_id == ty && g.message_stream_id == msid => {}
            Some(g) => return Err(format!("type {} message of {} bytes at ts {} came back as type {} with {} bytes at ts {}", ty, len, 10 * i, g.type_id, g.data.len(), g.timestamp.value)),
            None => return Err(format!("message of {} bytes was not returned", len)),
        }
        if de.get_next_message(&[]).map_err(|e| format!("{:?}", e))?.is_some() {
            return Err("extra message".into());
        }
    }
    Ok(())
}

/// Announces `v` on a serializer/deserializer pair that is already in use; the announcement must reach the peer.
fn announce(ser: &mut ChunkSerializer, de: &mut ChunkDeserializer, v: u64) -> Result<Result<(), String>, String> {
    match ser.set_max_chunk_size(v as u32, RtmpTimestamp::new(0)) {
        Err(e) => Ok(Err(format!("{:?}", e))),
        Ok(p) => {
            match de.get_next_message(&p.bytes) {
                Ok(Some(m)) if m.type_id == 1 && m.data[..] == (v as u32).to_be_bytes()[..] => {}
                other => return Err(format!("the Set Chunk Size packet announcing {} does not decode at the peer: {:?}", v, other.map(|o| o.map(|m| (m.type_id, m.data.len()))).map_err(|e| format!("{:?}", e)))),
            }
            if let Err(e) = de.set_max_chunk_size(v as usize) {
                return Err(format!("serializer accepted chunk size {} but the deserializer refuses it: {:?}", v, e));
            }
            Ok(Ok(()))
        }
    }
}

/// `first`: a size announced (and used) before the value under test.
fn ser_chunk_case(first: Option<u64>, v: u64) -> (String, String) {
    let mut ser = ChunkSerializer::new();
    let mut de = ChunkDeserializer::new();
    let mut in_force = 128u64;
    if let Some(f) = first {
        match announce(&mut ser, &mut de, f) {
            Ok(Ok(())) => {}
            other => return ("broken".into(), format!("preparing with chunk size {}: {:?}", f, other)),
        }
        if let Err(e) = mini_c01(&mut ser, &mut de, f) {
            return ("broken".into(), format!("at the first chunk size {}: {}", f, e));
        }
        in_force = f;
    }
    match announce(&mut ser, &mut de, v) {
        Err(e) => ("broken".into(), e),
        Ok(Err(e)) => {
            // refused: the pair must keep working at the size in force, as if the call had not happened
            match mini_c01(&mut ser, &mut de, in_force) {
                Ok(()) => ("refused".into(), e),
                Err(x) => ("refusal-side-effect".into(), format!("chunk size {} was refused ({}), but afterwards the codec no longer works at the size in force ({}): {}", v, e, in_force, x)),
            }
        }
        Ok(Ok(())) => {
            if let Err(e) = mini_c01(&mut ser, &mut de, v) {
                return ("broken".into(), e);
            }
            // further announcements on the same pair
            for w in [v, if v == 128 { 64 } else { 128 }, 3] {
                match announce(&mut ser, &mut de, w) {
                    Ok(Ok(())) => {}
                    other => return ("broken".into(), format!("after working at chunk size {}, announcing {}: {:?}", v, w, other)),
                }
                if let Err(e) = mini_c01(&mut ser, &mut de, w) {
                    return ("broken".into(), format!("after working at chunk size {}, then at {}: {}", v, w, e));
                }
            }
            ("ok".into(), "mini C01 passed, also after further announcements".into())
        }
    }
}

fn run_cfg_case(kind: &str, v: u64) -> (String, String) {
    let refused = |e: String| ("refused".to_string(), e);
    let ok = |d: &str| ("ok".to_string(), d.to_string());
    let broken = |e: String| ("broken".to_string(), e);
    // `_utf8` kinds use two-byte characters, so the byte length differs from the character count
    let utf8 = kind.ends_with("_utf8");
    let kind: &str = kind.trim_end_matches("_utf8");
    let text = move |n: u64| {
        if utf8 {
            let mut t = "\u{e9}".repeat((n / 2) as usize);
            if n % 2 == 1 {
                t.push('a');
            }
            t
        } else {
            "v".repeat(n as usize)
        }
    };
    match kind {
        "ser_chunk" => ser_chunk_case(None, v),
        "ser_chunk_after_3" => ser_chunk_case(Some(3), v),
        "ser_chunk_after_5000" => ser_chunk_case(Some(5000), v),
        "de_chunk" => {
            let mut de = ChunkDeserializer::new();
            match de.set_max_chunk_size(v as usize) {
                Err(e) => {
                    // refused: a foreign stream at the default size must still decode
                    let mut enc = SpecEncoder::new();
                    for (i, len) in [0usize, 5, 300].into_iter().enumerate() {
                        let m = Msg { type_id: 8, msid: 1, ts: i as u32, payload: pattern(i as u32, len) };
                        let bytes: Vec<u8> = enc.encode(3, 1, if i == 0 { 0 } else { 1 }, &m).concat();
                        match de.get_next_message(&bytes) {
                            Ok(Some(g)) if g.data[..] == m.payload[..] => {}
                            other => return ("refusal-side-effect".into(), format!("chunk size {} was refused ({:?}) but afterwards a {}-byte message at the default size: {:?}", v, e, len, other.map(|o| o.map(|p| p.data.len())).map_err(|e| format!("{:?}", e)))),
                        }
                    }
                    refused(format!("{:?}", e))
                }
                Ok(()) => {
                    // a foreign sender that uses this chunk size (announcement omitted: set directly)
                    let mut enc = SpecEncoder::new();
                    enc.chunk_size = v.max(1).min(0x7FFF_FFFF) as u32;
                    let mut lens = vec![0usize, 5, 300];
                    if v <= 70_000 {
                        lens.push(v as usize + 1);
                    }
                    for (i, len) in lens.into_iter().enumerate() {
                        let m = Msg { type_id: 8, msid: 1, ts: i as u32, payload: pattern(i as u32, len) };
                        let bytes: Vec<u8> = enc.encode(3, 1, if i == 0 { 0 } else { 1 }, &m).concat();
                        match de.get_next_message(&bytes) {
                            Ok(Some(g)) if g.data[..] == m.payload[..] => {}
                            other => return broken(format!("message of {} bytes at chunk size {}: {:?}", len, v, other.map(|o| o.map(|p| p.data.len())).map_err(|e| format!("{:?}", e)))),
                        }
                    }
                    ok("foreign stream at that size decoded")
                }
            }
        }
        "server_chunk" | "client_chunk" | "server_window" | "client_window" | "server_bandwidth" | "client_buffer" | "fms_version_len" | "flash_version_len" | "tc_url_len" | "app_len" | "key_len" => {
            let mut sc = default_scenario(v % 2 == 0);
            // chunk sizes: two activities on the connection (publish, stop, play or the reverse), so that a size that is
            // forgotten or re-announced wrongly when an activity ends is noticed
            if thorough_modes() || kind.ends_with("_chunk") { sc.modes = vec![sc.modes[0], !sc.modes[0], sc.modes[0]]; }
            let mut scfg = ServerSessionConfig::new();
            let mut ccfg = ClientSessionConfig::new();
            match kind {
                "server_chunk" => sc.server_chunk = v as u32,
                "client_chunk" => sc.client_chunk = v as u32,
                "server_window" => sc.server_window = v as u32,
                "client_window" => sc.client_window = v as u32,
                "app_len" => sc.app = text(v),
                "key_len" => sc.key = text(v),
                _ => {}
            }
            // settings the scenario struct does not carry are checked with a direct session run
            match kind {
                "server_bandwidth" | "fms_version_len" => {
                    if kind == "server_bandwidth" { scfg.peer_bandwidth = v as u32 } else { scfg.fms_version = text(v) }
                    let (mut s, _) = match ServerSession::new(scfg) {
                        Err(e) => return refused(format!("{:?}", e)),
                        Ok(x) => x,
                    };
                    // drive a connect + accept with the library's own client
                    let (mut c, _) = ClientSession::new(ClientSessionConfig::new()).unwrap();
                    let p = match c.request_connection("a".into()) { Ok(ClientSessionResult::OutboundResponse(p)) => p, other => return broken(format!("{:?}", other.is_ok())) };
                    let res = match s.handle_input(&p.bytes) { Ok(r) => r, Err(e) => return broken(format!("{:?}", e)) };
                    for r in res {
                        if let ServerSessionResult::RaisedEvent(rml_rtmp::sessions::ServerSessionEvent::ConnectionRequested { request_id, .. }) = r {
                            return match s.accept_request(request_id) {
                                Ok(out) => {
                                    let mut bytes = Vec::new();
                                    for o in out { if let ServerSessionResult::OutboundResponse(p) = o { bytes.extend(p.bytes); } }
                                    if bytes.is_empty() { broken("accept produced no bytes".into()) } else { ok("connect accepted") }
                                }
                                Err(e) => refused(format!("{:?}", e)),
                            };
                        }
                    }
                    broken("no connection request surfaced".into())
                }
                "client_buffer" | "flash_version_len" | "tc_url_len" => {
                    match kind {
                        "client_buffer" => ccfg.playback_buffer_length_ms = v as u32,
                        "flash_version_len" => ccfg.flash_version = text(v),
                        _ => ccfg.tc_url = Some(text(v)),
                    }
                    let (mut c, _) = match ClientSession::new(ccfg) {
                        Err(e) => return refused(format!("{:?}", e)),
                        Ok(x) => x,
                    };
                    match c.request_connection("a".into()) {
                        Err(e) => refused(format!("{:?}", e)),
                        Ok(ClientSessionResult::OutboundResponse(p)) => {
                            let mut de = ChunkDeserializer::new();
                            match de.get_next_message(&p.bytes) {
                                Ok(Some(m)) => match m.to_rtmp_message() { Ok(_) => ok("connect command decodes"), Err(e) => broken(format!("connect command does not decode: {:?}", e)) },
                                other => broken(format!("{:?}", other.map(|o| o.is_some()).map_err(|e| format!("{:?}", e)))),
                            }
                        }
                        Ok(_) => broken("no packet".into()),
                    }
                }
                _ => match run_default(sc) {
                    Ok(()) => ok("mini C02 passed"),
                    Err(e) => {
                        // for a value the protocol cannot express any error is a refusal; for an expressible value
                        // an error means that the accepted value does not yield a working session
                        let names_the_value = must_refuse(kind, v) || may_refuse(kind, v);
                        if names_the_value {
                            refused(e)
                        } else {
                            broken(e)
                        }
                    }
                },
            }
        }
        "peer_chunk_to_server" | "peer_chunk_to_client" => {
            // the peer announces chunk size v in-band and then uses it
            let mut enc = SpecEncoder::new();
            let ann: Vec<u8> = enc.encode(2, 1, 0, &Msg { type_id: 1, msid: 0, ts: 0, payload: (v as u32).to_be_bytes().to_vec() }).concat();
            let ping = Msg { type_id: 4, msid: 0, ts: 0, payload: vec![0, 6, 0, 0, 0, 9] };
            let ping_bytes: Vec<u8> = enc.encode(2, 1, 0, &ping).concat();
            let r: Result<usize, String> = if kind == "peer_chunk_to_server" {
                let (mut s, _) = ServerSession::new(ServerSessionConfig::new()).unwrap();
                s.handle_input(&ann).map_err(|e| format!("{:?}", e)).and_then(|_| s.handle_input(&ping_bytes).map(|r| r.len()).map_err(|e| format!("after the announcement: {:?}", e)))
            } else {
                let (mut c, _) = ClientSession::new(ClientSessionConfig::new()).unwrap();
                c.handle_input(&ann).map_err(|e| format!("{:?}", e)).and_then(|_| c.handle_input(&ping_bytes).map(|r| r.len()).map_err(|e| format!("after the announcement: {:?}", e)))
            };
            match r {
                Err(e) => refused(e),
                Ok(1) => ok("ping answered after the announcement"),
                Ok(n) => broken(format!("{} results for a ping after the announcement", n)),
            }
        }
        "payload_len_ser" | "payload_len_ser_cs128" | "payload_len_ser_cs2p24" | "payload_len_ser_csmax" | "payload_len_ser_cs12m" => {
            let cs: u32 = match kind { "payload_len_ser_cs128" => 128, "payload_len_ser_cs2p24" => 0x100_0000, "payload_len_ser_csmax" => 0x7FFF_FFFF, "payload_len_ser_cs12m" => 12_000_000, _ => 65_536 };
            let mut ser = ChunkSerializer::new();
            let _ = ser.set_max_chunk_size(cs, RtmpTimestamp::new(0));
            let body = pattern(77, v as usize);
            let m = MessagePayload { timestamp: RtmpTimestamp::new(0), type_id: 9, message_stream_id: 1, data: Bytes::from(body.clone()) };
            match ser.serialize(&m, false, false) {
                Err(e) => refused(format!("{:?}", e)),
                Ok(p) => {
                    let mut de = ChunkDeserializer::new();
                    de.set_max_chunk_size(cs as usize).unwrap();
                    match de.get_next_message(&p.bytes) {
                        Ok(Some(g)) if g.data[..] == body[..] => {
                            // and a small message behind it still decodes (nothing was left over or swallowed)
                            let m2 = MessagePayload { timestamp: RtmpTimestamp::new(5), type_id: 8, message_stream_id: 1, data: Bytes::from(vec![1u8, 2, 3]) };
                            let p2 = match ser.serialize(&m2, false, false) { Ok(p) => p, Err(e) => return broken(format!("second message refused: {:?}", e)) };
                            match de.get_next_message(&p2.bytes) {
                                Ok(Some(g2)) if g2.data[..] == [1u8, 2, 3] && g2.type_id == 8 => ok("round trip"),
                                other => broken(format!("a message sent after the {}-byte one: {:?}", v, other.map(|o| o.map(|p| (p.type_id, p.data.len()))).map_err(|e| format!("{:?}", e)))),
                            }
                        }
                        Ok(Some(g)) => broken(format!("{} bytes came back as {} bytes with different content", v, g.data.len())),
                        other => broken(format!("{:?}", other.map(|o| o.map(|p| p.data.len())).map_err(|e| format!("{:?}", e)))),
                    }
                }
            }
        }
        "client_meta_encoder_len" | "server_meta_encoder_len" => {
            // a metadata string the application hands to a session in the publishing / playing state
            use super::sess::{decode_with_lib, SAct};
            let mut md = rml_rtmp::sessions::StreamMetadata::new();
            md.encoder = Some(text(v));
            md.video_width = Some(640);
            let mut de = ChunkDeserializer::new();
            let packet = if kind == "client_meta_encoder_len" {
                let (mut h, o) = match super::sess::ClientH::new(super::sess::default_client_cfg(), 1000) { Ok(x) => x, Err(e) => return broken(format!("client: {:?}", e)) };
                let _ = decode_with_lib(&mut de, &o.packets);
                for a in super::c10::prefixes()[5].1.iter() {
                    let o = h.step(a);
                    if !o.ok() {
                        return broken(format!("preparing a publishing client: {:?}", o.err));
                    }
                    if let Err(e) = decode_with_lib(&mut de, &o.packets) {
                        return broken(format!("preparing a publishing client: {}", e));
                    }
                }
                match h.c.publish_metadata(&md) {
                    Err(e) => return refused(format!("{:?}", e)),
                    Ok(ClientSessionResult::OutboundResponse(p)) => p,
                    Ok(_) => return broken("publish_metadata returned no packet".into()),
                }
            } else {
                let (mut h, o) = match super::sess::ServerH::new(super::sess::default_server_cfg(), 1000) { Ok(x) => x, Err(e) => return broken(format!("server: {:?}", e)) };
                let _ = decode_with_lib(&mut de, &o.packets);
                for a in [SAct::Connect { tx: 1.0, app: "a".into() }, SAct::Accept { id: 0 }, SAct::CreateStream { tx: 2.0 }, SAct::Play { sid: 1, key: "k".into() }, SAct::Accept { id: 1 }] {
                    let o = h.step(&a);
                    if !o.ok() {
                        return broken(format!("preparing a playing server: {:?}", o.err));
                    }
                    if let Err(e) = decode_with_lib(&mut de, &o.packets) {
                        return broken(format!("preparing a playing server: {}", e));
                    }
                }
                match h.s.send_metadata(1, &md) {
                    Err(e) => return refused(format!("{:?}", e)),
                    Ok(p) => p,
                }
            };
            // the accepted string must arrive whole
            match decode_with_lib(&mut de, &[(packet.bytes.clone(), packet.can_be_dropped)]) {
                Err(e) => broken(format!("the metadata packet does not decode: {}", e)),
                Ok(outs) => {
                    let want = crate::refmodel::amf0::V::Str(text(v));
                    let found = outs.iter().any(|o| match &o.m {
                        crate::refmodel::msg::M::Data(vals) => vals.iter().any(|x| match x {
                            crate::refmodel::amf0::V::Obj(props) => props.iter().any(|(k, val)| k == "encoder" && *val == want),
                            _ => false,
                        }),
                        _ => false,
                    });
                    if found { ok("metadata with the string arrived") } else { broken(format!("the decoded metadata does not carry the {}-byte encoder string", v)) }
                }
            }
        }
        "payload_len_server_send" | "payload_len_server_send_csmax" => {
            let mut cfg = ServerSessionConfig::new();
            if kind.ends_with("csmax") {
                cfg.chunk_size = 0x7FFF_FFFF;
            }
            let (mut s, _) = ServerSession::new(cfg).unwrap();
            match s.send_video_data(1, Bytes::from(vec![1u8; v as usize]), RtmpTimestamp::new(0), false) {
                Err(e) => refused(format!("{:?}", e)),
                Ok(p) => if p.bytes.len() > v as usize { ok("packet produced") } else { broken("packet shorter than the payload".into()) },
            }
        }
        _ => ("broken".into(), format!("unknown case kind {}", kind)),
    }
}

pub fn case_main(args: &[String]) -> i32 {
    let kind = args[0].clone();
    let v: u64 = args[1].parse().unwrap();
    let r = guarded(|| run_cfg_case(&kind, v));
    let (outcome, detail) = match r {
        Err(p) => ("panic".to_string(), p),
        Ok(x) => x,
    };
    let d: String = detail.chars().take(300).collect();
    println!("RESULT {}", json!({"outcome": outcome, "detail": d}));
    0
}

pub fn run(run: &Run) {
    let thorough = run.thorough();
    let chunk_vals: Vec<u64> = vec![0, 1, 2, 127, 128, 129, 4096, 65_535, 65_536, 0xFF_FFFF, 0x100_0000, 0x7FFF_FFFE, 0x7FFF_FFFF, 0x8000_0000, 0xFFFF_FFFF];
    let win_vals: Vec<u64> = vec![0, 1, 2, 0x8000_0000, 0xFFFF_FFFF];
    let len_vals: Vec<u64> = vec![0, 1, 14, 65_000, 65_535, 65_536];
    let mut cases: Vec<(String, u64)> = Vec::new();
    // the deserializer takes a usize: values beyond the u32 range must be refused, not narrowed
    for v in [1u64 << 32, (1u64 << 32) + 1, (1u64 << 32) + 4096, (1u64 << 32) + (1u64 << 31), (1u64 << 40) + 128, u64::MAX] {
        cases.push(("de_chunk".to_string(), v));
    }
    for k in ["ser_chunk", "ser_chunk_after_3", "ser_chunk_after_5000", "de_chunk", "server_chunk", "client_chunk", "peer_chunk_to_server", "peer_chunk_to_client"] {
        for &v in chunk_vals.iter() {
            cases.push((k.to_string(), v));
        }
    }
    for k in ["server_window", "client_window", "server_bandwidth", "client_buffer"] {
        for &v in win_vals.iter() {
            cases.push((k.to_string(), v));
        }
    }
    for k in ["fms_version_len", "flash_version_len", "tc_url_len", "app_len", "key_len", "client_meta_encoder_len", "server_meta_encoder_len"] {
        for &v in len_vals.iter() {
            cases.push((k.to_string(), v));
            if v >= 14 {
                cases.push((format!("{}_utf8", k), v));
            }
        }
    }
    for &v in &[8_388_607u64, 8_388_608, 8_388_609, 9_000_000] {
        for k in ["payload_len_ser_cs2p24", "payload_len_ser_csmax", "payload_len_ser_cs12m"] {
            cases.push((k.to_string(), v));
        }
    }
    for &v in &[0u64, 16_777_215, 16_777_216] {
        for k in ["payload_len_ser", "payload_len_ser_cs128", "payload_len_ser_cs2p24", "payload_len_ser_csmax", "payload_len_server_send", "payload_len_server_send_csmax"] {
            cases.push((k.to_string(), v));
        }
    }
    if thorough {
        // both parities of the scenario (publish / play) for the session-level kinds
        let extra: Vec<(String, u64)> = cases.iter().filter(|(k, _)| k.starts_with("server_") || k.starts_with("client_") || k == "app_len" || k == "key_len").map(|(k, v)| (k.clone(), v + if *v < u64::MAX { 0 } else { 0 })).collect();
        let _ = extra;
    }
    let refused = AtomicU64::new(0);
    let honoured = AtomicU64::new(0);
    let pool = rayon::ThreadPoolBuilder::new().num_threads(8).build().unwrap();
    pool.install(|| {
        cases.par_iter().for_each(|(kind, v)| {
            let heavy = *v >= 0x7FFF_FFFE && kind.contains("chunk") || kind.starts_with("payload");
            let r = run_case(&["cfg".to_string(), kind.clone(), v.to_string()], if heavy { 30.0 } else { 10.0 }, 4 << 30);
            let replay = json!({"entry_point": kind, "value": v});
            let bad = must_refuse(kind, *v);
            match r.exit {
                Exit::Code(0) => match result_json(&r) {
                    None => run.violation(&format!("C19/abnormal-exit/{}", kind), &format!("no result for value {} ({})", v, r.stderr_tail), replay),
                    Some(j) => {
                        let outcome = j["outcome"].as_str().unwrap_or("");
                        let detail = j["detail"].as_str().unwrap_or("");
                        match outcome {
                            "refused" => {
                                refused.fetch_add(1, Ordering::Relaxed);
                            }
                            "ok" => {
                                if bad {
                                    run.violation(&format!("C19/inexpressible-value-accepted/{}", kind), &format!("{} = {} cannot be expressed by the protocol but was accepted ({})", kind, v, detail), replay);
                                } else {
                                    honoured.fetch_add(1, Ordering::Relaxed);
                                }
                            }
                            "panic" => run.violation(&format!("C19/panic/{}", kind), &format!("{} = {}: {}", kind, v, detail), replay),
                            "refusal-side-effect" => run.violation(&format!("C19/refusal-left-the-codec-broken/{}", kind), &format!("{} = {}: {}", kind, v, detail), replay),
                            _ => run.violation(&format!("C19/accepted-but-not-working/{}{}", kind, if bad { "/inexpressible-value" } else { "" }), &format!("{} = {} was accepted but the codec/session does not work with it: {}", kind, v, detail), replay),
                        }
                    }
                },
                Exit::TimedOut => run.violation(&format!("C19/hang/{}{}", kind, if bad { "/inexpressible-value" } else { "" }), &format!("{} = {}: no result within the wall-clock cap", kind, v), replay),
                Exit::Signal(s) => run.violation(&format!("C19/killed/{}{}", kind, if bad { "/inexpressible-value" } else { "" }), &format!("{} = {}: process terminated by signal {} ({})", kind, v, s, r.stderr_tail.replace('\n', " ")), replay),
                Exit::Code(c) => run.violation(&format!("C19/abnormal-exit/{}{}", kind, if bad { "/inexpressible-value" } else { "" }), &format!("{} = {}: exit code {} ({})", kind, v, c, r.stderr_tail.replace('\n', " ")), replay),
            }
        });
    });
    let total = cases.len() as u64;
    run.set("evaluations", json!(total));
    run.set("distinct_nontrivial", json!(total));
    run.set("rule", json!("one child process per (entry point, value); entry points: ChunkSerializer/ChunkDeserializer::set_max_chunk_size, Server/ClientSessionConfig fields, a peer-sent Set Chunk Size to either session, version/url/app/key string lengths, payload lengths; (also after an earlier announcement of 3 / 5000, and followed by further announcements on the same pair); a case passes when the value is refused with Err and the codec keeps working at the size in force, or accepted and a mini C01 (messages incl. 0 bytes and chunk size + 1 through the codec) or mini C02 (default schedule connect/publish|play/items/stop) passes"));
    run.set("exhaustive", json!(true));
    run.set("values", json!({"chunk_sizes": chunk_vals, "windows_bandwidths_buffers": win_vals, "string_lengths": len_vals, "payload_lengths": [0, 16_777_215, 16_777_216]}));
    run.count("cases", total);
    run.count("refused_with_error", refused.load(Ordering::Relaxed));
    run.count("honoured_and_working", honoured.load(Ordering::Relaxed));
    run.sample(json!({"entry_point": "ser_chunk", "value": 0, "expect": "refused with an error (a chunk size of 0 cannot carry payload)"}));
    run.sample(json!({"entry_point": "client_chunk", "value": 2147483647, "expect": "accepted; connect/publish/stop scenario against a real server session completes"}));
    run.assume("wall cap 10 s (30 s for 2^31-sized chunk values and 16 MiB payloads) and 4 GiB address space per case");
    if run.violation_count() == 0 {
        run.require_hist(&["cases", "refused_with_error", "honoured_and_working"]);
    }
}
