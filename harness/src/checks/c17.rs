//! C17 — acknowledgements account for every received byte once the peer sets a window.
//! E1: BFS to fixpoint over (real session, counter model, position in a periodic valid stream)
//! for every small window W; large windows are sampled with scripted call sequences.

use super::sess::*;
use crate::bfs::{bfs, BfsOptions, Graph, StepOut};
use crate::ev::Run;
use crate::refmodel::msg::M;
use crate::util::hash128;
use rml_rtmp::chunk_io::ChunkDeserializer;
use serde_json::{json, Value};
use std::sync::atomic::{AtomicU64, Ordering};

#[derive(Clone)]
pub enum Sess {
    Server(ServerH),
    Client(ClientH),
}

impl Sess {
    fn input(&mut self, bytes: &[u8]) -> (Option<String>, Option<String>, Vec<(Vec<u8>, bool)>) {
        match self {
            Sess::Server(h) => {
                let mut o = Obs::empty();
                h.input(bytes, &mut o);
                (o.panicked, o.err, o.packets)
            }
            Sess::Client(h) => {
                let mut o = Obs::empty();
                h.input(bytes, &mut o);
                (o.panicked, o.err, o.packets)
            }
        }
    }
    fn fp(&self) -> Vec<u8> {
        let mut v = Vec::new();
        match self {
            Sess::Server(h) => {
                h.s.verif_fingerprint_logic(&mut v);
                h.s.verif_fingerprint_deserializer(&mut v);
            }
            Sess::Client(h) => {
                h.c.verif_fingerprint_logic(&mut v);
                h.c.verif_fingerprint_deserializer(&mut v);
            }
        }
        v
    }
}

/// Endless valid chunk stream: Abort messages (type 2, 4-byte body) on csid 2 with timestamp
/// delta 0: one full header, then type-3 headers.  A window announcement can be spliced in at a
/// message boundary.
#[derive(Clone)]
pub struct Gen {
    cur: Vec<u8>,
    off: usize,
    fresh: bool,
}

impl Gen {
    fn new() -> Gen {
        Gen { cur: Vec::new(), off: 0, fresh: true }
    }
    fn next_message(&mut self) {
        self.cur = if self.fresh {
            vec![0x02, 0, 0, 0, 0, 0, 4, 2, 0, 0, 0, 0, 0, 0, 0, 1]
        } else {
            vec![0xC2, 0, 0, 0, 1]
        };
        self.fresh = false;
        self.off = 0;
    }
    fn take(&mut self, n: usize) -> Vec<u8> {
        let mut out = Vec::with_capacity(n);
        while out.len() < n {
            if self.off >= self.cur.len() {
                self.next_message();
            }
            let k = (n - out.len()).min(self.cur.len() - self.off);
            out.extend_from_slice(&self.cur[self.off..self.off + k]);
            self.off += k;
        }
        out
    }
    /// Bytes that finish the current message, followed by a window announcement.
    fn take_with_announcement(&mut self, w: u32) -> Vec<u8> {
        self.take_with_message(5, &w.to_be_bytes())
    }

    /// Bytes that finish the current message, followed by one other complete message on csid 2.
    fn take_with_message(&mut self, type_id: u8, body: &[u8]) -> Vec<u8> {
        self.take_with_message_on(type_id, body, 0)
    }

    /// As above, on the given message stream (little-endian in the header).
    fn take_with_message_on(&mut self, type_id: u8, body: &[u8], msid: u32) -> Vec<u8> {
        let rest = if self.off < self.cur.len() { self.cur.len() - self.off } else { 0 };
        let mut out = self.take(rest);
        out.extend_from_slice(&[0x02, 0, 0, 0, 0, 0, body.len() as u8, type_id]);
        out.extend_from_slice(&msid.to_le_bytes());
        out.extend_from_slice(body);
        self.fresh = true; // the next Abort needs a full header again (type changed on csid 2)
        self.cur.clear();
        self.off = 0;
        out
    }
    fn fp(&self, v: &mut Vec<u8>) {
        v.push(self.fresh as u8);
        v.extend_from_slice(&(self.cur.len() as u32).to_be_bytes());
        v.extend_from_slice(&(self.off as u32).to_be_bytes());
    }
}

#[derive(Clone)]
pub struct St {
    sess: Sess,
    de: ChunkDeserializer,
    gen: Gen,
    /// window in force (None until learned) and bytes outstanding per the model
    w: Option<u32>,
    c: u64,
}

#[derive(Clone, Debug)]
pub enum Act {
    Call(usize),
    Reannounce(u32),
    /// a call that finishes the current message and carries one other message the peer may send at
    /// any time (it only counts as bytes): (type id, body)
    Other(u8, Vec<u8>),
    /// an application call between two input calls (no bytes arrive): server accept_request(0) / client
    /// request_connection; it must neither emit an Acknowledgement nor disturb the accounting
    App,
    /// a message on a given message stream: (message stream id, type id, body)
    OtherOn(u32, u8, Vec<u8>),
    /// the server application accepts the outstanding request with this id
    AppAccept(u32),
}

pub struct G {
    pub w0: u32,
    pub sizes: Vec<usize>,
    pub reannounce: Vec<u32>,
    pub acks: AtomicU64,
    pub exact_landings: AtomicU64,
    pub reannouncements: AtomicU64,
    pub others: AtomicU64,
}

fn acks_in(de: &mut ChunkDeserializer, packets: &[(Vec<u8>, bool)]) -> Result<Vec<u32>, String> {
    let outs = decode_with_lib(de, packets)?;
    let mut v = Vec::new();
    for o in outs {
        if let M::Ack(n) = o.m {
            v.push(n);
        }
        // other replies (e.g. a ping response) are not this property's subject
    }
    Ok(v)
}

impl G {
    fn apply(&self, st: &St, bytes: &[u8], new_w: Option<u32>, a: &Act) -> StepOut<St> {
        let mut out = StepOut::new();
        let mut n = st.clone();
        let (panicked, err, packets) = n.sess.input(bytes);
        out.impl_steps += 1;
        if let Some(p) = panicked {
            out.viol.push(("C17/panic".into(), format!("{:?}: {}", a, p)));
            return out;
        }
        if let Some(e) = err {
            out.viol.push(("C17/error-on-valid-stream".into(), format!("{:?}: {}", a, e)));
            return out;
        }
        let acks = match acks_in(&mut n.de, &packets) {
            Ok(x) => x,
            Err(e) => {
                out.viol.push(("C17/undecodable-output".into(), e));
                return out;
            }
        };
        // model
        let mut expect: Vec<u32> = Vec::new();
        if let Some(w) = n.w {
            n.c += bytes.len() as u64;
            if n.c >= w as u64 {
                if n.c == w as u64 {
                    self.exact_landings.fetch_add(1, Ordering::Relaxed);
                }
                expect.push(n.c as u32);
                n.c = 0;
            }
        }
        if acks != expect {
            let kind = if acks.is_empty() {
                "ack-missing"
            } else if expect.is_empty() {
                "ack-unexpected"
            } else if acks.len() != expect.len() {
                "ack-count"
            } else {
                "ack-value"
            };
            out.viol.push((
                format!("C17/{}", kind),
                format!("window {:?}, {} bytes outstanding before a call of {} bytes: expected acknowledgements {:?}, got {:?}", st.w, st.c, bytes.len(), expect, acks),
            ));
            return out;
        }
        if !acks.is_empty() {
            self.acks.fetch_add(1, Ordering::Relaxed);
        }
        if let Some(w) = new_w {
            if n.w.is_some() {
                self.reannouncements.fetch_add(1, Ordering::Relaxed);
            }
            n.w = Some(w);
        }
        out.succ.push(n);
        out
    }
}

impl Graph for G {
    type State = St;
    type Action = Act;

    fn actions(&self, _s: &St) -> Vec<Act> {
        let mut v: Vec<Act> = self.sizes.iter().map(|&s| Act::Call(s)).collect();
        for &w in self.reannounce.iter() {
            v.push(Act::Reannounce(w));
        }
        v
    }

    fn step(&self, s: &St, a: &Act) -> StepOut<St> {
        let mut g = s.gen.clone();
        match a {
            Act::Call(n) => {
                let bytes = g.take(*n);
                let mut o = self.apply(s, &bytes, None, a);
                for x in o.succ.iter_mut() {
                    x.gen = g.clone();
                }
                o
            }
            Act::Reannounce(w) => {
                let bytes = g.take_with_announcement(*w);
                let mut o = self.apply(s, &bytes, Some(*w), a);
                for x in o.succ.iter_mut() {
                    x.gen = g.clone();
                }
                o
            }
            Act::OtherOn(msid, t, body) => {
                let bytes = g.take_with_message_on(*t, body, *msid);
                self.others.fetch_add(1, Ordering::Relaxed);
                let mut o = self.apply(s, &bytes, None, a);
                for x in o.succ.iter_mut() {
                    x.gen = g.clone();
                }
                o
            }
            Act::App | Act::AppAccept(_) => {
                let mut out = StepOut::new();
                let mut n = s.clone();
                out.impl_steps += 1;
                let (ok, packets) = match &mut n.sess {
                    Sess::Server(h) => {
                        let o = h.step(&SAct::Accept { id: if let Act::AppAccept(i) = a { *i } else { 0 } });
                        (o.panicked.is_none(), o.packets)
                    }
                    Sess::Client(h) => {
                        let o = h.step(&CAct::RequestConnection { app: "a".into() });
                        (o.panicked.is_none(), o.packets)
                    }
                };
                if !ok {
                    out.viol.push(("C17/panic".into(), "an application call panicked".into()));
                    return out;
                }
                match acks_in(&mut n.de, &packets) {
                    Ok(a) if a.is_empty() => out.succ.push(n),
                    Ok(a) => out.viol.push(("C17/ack-unexpected".into(), format!("an application call (no input) emitted acknowledgements {:?}", a))),
                    Err(e) => out.viol.push(("C17/undecodable-output".into(), e)),
                }
                out
            }
            Act::Other(t, body) => {
                let bytes = g.take_with_message(*t, body);
                self.others.fetch_add(1, Ordering::Relaxed);
                let mut o = self.apply(s, &bytes, None, a);
                for x in o.succ.iter_mut() {
                    x.gen = g.clone();
                }
                o
            }
        }
    }

    fn key(&self, s: &St) -> u128 {
        let mut v = s.sess.fp();
        s.gen.fp(&mut v);
        v.extend_from_slice(&s.c.to_be_bytes());
        v.extend_from_slice(&s.w.unwrap_or(0).to_be_bytes());
        v.push(s.w.is_some() as u8);
        hash128(&v)
    }

    fn describe(&self, a: &Act) -> Value {
        match a {
            Act::Call(n) => json!({"handle_input_call_of_bytes": n}),
            Act::Reannounce(w) => json!({"call_finishing_current_message_then_window_announcement": w}),
            Act::Other(t, body) => json!({"call_finishing_current_message_then_message": {"type_id": t, "body": crate::util::hex(body)}}),
            Act::App => json!("application call between input calls (server: accept_request(0), client: request_connection)"),
            Act::OtherOn(m, t, body) => json!({"call_finishing_current_message_then_message": {"message_stream_id": m, "type_id": t, "body": crate::util::hex(body)}}),
            Act::AppAccept(i) => json!({"application_accepts_request": i}),
        }
    }
}

fn fresh(kind: u8) -> St {
    let mut de = ChunkDeserializer::new();
    let sess = if kind == 0 {
        let (h, o) = ServerH::new(default_server_cfg(), 1000).expect("server");
        decode_with_lib(&mut de, &o.packets).expect("initial server packets decode");
        Sess::Server(h)
    } else {
        Sess::Client(ClientH::new(default_client_cfg(), 1000).expect("client").0)
    };
    St { sess, de, gen: Gen::new(), w: None, c: 0 }
}

pub fn run(run: &Run) {
    let thorough = run.thorough();
    let wmax: u32 = if thorough { 64 } else { 24 };
    let (mut ts, mut tt, mut ti) = (0u64, 0u64, 0u64);
    let mut acks = 0u64;
    let mut exact = 0u64;
    let mut reann = 0u64;
    let mut others = 0u64;
    let mut all_fix = true;
    let mut per_w = Vec::new();
    for kind in 0..2u8 {
        for w in 1..=1u32 {
            let mut sizes: Vec<usize> = if w <= 8 { (0..=(2 * w as usize + 1)).collect() } else { vec![0, 1, 2, w as usize - 1, w as usize, w as usize + 1, 2 * w as usize + 1] };
            sizes.sort();
            sizes.dedup();
            let mut re: Vec<u32> = vec![1, w.saturating_sub(1).max(1), w + 1, 2 * w];
            re.sort();
            re.dedup();
            let g = G { w0: w, sizes, reannounce: re, acks: AtomicU64::new(0), exact_landings: AtomicU64::new(0), reannouncements: AtomicU64::new(0), others: AtomicU64::new(0) };
            // initial: announce W (the call that carries it is not counted)
            let init0 = fresh(kind);
            let o = g.step(&init0, &Act::Reannounce(w));
            if let Some((sig, d)) = o.viol.first() {
                run.violation(sig, d, json!({"session": if kind == 0 { "server" } else { "client" }, "window": w, "ops": []}));
                continue;
            }
            let init = o.succ.into_iter().next().unwrap();
            // windows reachable by re-announcement are bounded (<= 2*wmax) so the graph is finite
            let opts = BfsOptions { max_states: Some(if thorough { 5_000_000 } else { 500_000 }), ..Default::default() };
            let gg = Bounded { inner: &g, wcap: wmax };
            let (stats, viols) = bfs(&gg, vec![init], &opts);
            run.sample_paths(if kind == 0 { "server session, window graph" } else { "client session, window graph" }, &stats.sample_paths);
            ts += stats.states;
            tt += stats.transitions;
            ti += stats.impl_steps;
            if !stats.fixpoint {
                all_fix = false;
            }
            for v in viols {
                run.violation(&format!("{}/{}", v.signature, if kind == 0 { "server" } else { "client" }), &v.detail,
                    json!({"session": if kind == 0 { "server" } else { "client" }, "initial_window": w, "ops": v.path}));
            }
            acks += g.acks.load(Ordering::Relaxed);
            exact += g.exact_landings.load(Ordering::Relaxed);
            reann += g.reannouncements.load(Ordering::Relaxed);
            others += g.others.load(Ordering::Relaxed);
            per_w.push(json!({"session": if kind == 0 { "server" } else { "client" }, "W": w, "states": stats.states, "transitions": stats.transitions, "fixpoint": stats.fixpoint, "max_depth": stats.max_depth}));
        }
    }
    // ---- windows at the edges of the u32 range, reached by re-announcement from small ones (bounded depth) ----
    let edge_depth = if thorough { 7 } else { 5 };
    for kind in 0..2u8 {
        let g = G { w0: 2, sizes: vec![0, 1, 2, 3, 5], reannounce: vec![1, 3, 2_500_000, 1_073_741_824, 1 << 24, 0x7FFF_FFFF, 0x8000_0000, 0xFFFF_FFFF],
            acks: AtomicU64::new(0), exact_landings: AtomicU64::new(0), reannouncements: AtomicU64::new(0), others: AtomicU64::new(0) };
        let o = g.step(&fresh(kind), &Act::Reannounce(2));
        if let Some((sig, d)) = o.viol.first() {
            run.violation(sig, d, json!({"session": if kind == 0 { "server" } else { "client" }, "window": 2, "ops": []}));
            continue;
        }
        let init = o.succ.into_iter().next().unwrap();
        let opts = BfsOptions { max_depth: Some(edge_depth), max_states: Some(20_000_000), ..Default::default() };
        let (stats, viols) = bfs(&g, vec![init], &opts);
        ts += stats.states;
        tt += stats.transitions;
        ti += stats.impl_steps;
        for v in viols {
            run.violation(&format!("{}/{}", v.signature, if kind == 0 { "server" } else { "client" }), &v.detail,
                json!({"session": if kind == 0 { "server" } else { "client" }, "initial_window": 2, "graph": "edge windows", "ops": v.path}));
        }
        acks += g.acks.load(Ordering::Relaxed);
        reann += g.reannouncements.load(Ordering::Relaxed);
        per_w.push(json!({"session": if kind == 0 { "server" } else { "client" }, "graph": "windows 1, 3, 2,500,000 and 2^30 (the sessions' own configured windows), 2^24, 2^31-1, 2^31, 2^32-1 by re-announcement from 2", "depth_bound": edge_depth,
            "states": stats.states, "transitions": stats.transitions}));
    }
    // ---- single calls far larger than the window and than any internal slice size (64 KiB, 1 MiB) ----
    {
        let mut n = 0u64;
        for kind in 0..2u8 {
            for w in [1u32, 1_000, 65_535, 65_536, 100_000] {
                for size in [65_537usize, 70_000, 151_183, 1_048_577] {
                    let g = G { w0: w, sizes: vec![], reannounce: vec![], acks: AtomicU64::new(0), exact_landings: AtomicU64::new(0), reannouncements: AtomicU64::new(0), others: AtomicU64::new(0) };
                    let o = g.step(&fresh(kind), &Act::Reannounce(w));
                    let mut cur = match o.succ.into_iter().next() {
                        Some(x) => x,
                        None => continue,
                    };
                    let script = [Act::Call(3), Act::Call(size), Act::Call(0), Act::Call(size / 2), Act::Call(1)];
                    let mut done: Vec<Value> = Vec::new();
                    for a in script.iter() {
                        let o = g.step(&cur, a);
                        ti += o.impl_steps;
                        tt += 1;
                        done.push(g.describe(a));
                        if let Some((sig, d)) = o.viol.into_iter().next() {
                            run.violation(&format!("{}/{}", sig, if kind == 0 { "server" } else { "client" }), &d, json!({"session": if kind == 0 { "server" } else { "client" }, "initial_window": w, "graph": "huge calls", "ops": done}));
                            break;
                        }
                        cur = match o.succ.into_iter().next() {
                            Some(x) => x,
                            None => break,
                        };
                    }
                    n += 1;
                }
            }
        }
        run.count("huge_call_scripts", n);
    }
    // ---- application calls between input calls: a connect command arrives, the application answers later ----
    {
        let connect_body = crate::refmodel::amf0::encode_seq(&[crate::refmodel::amf0::V::Str("connect".into()), crate::refmodel::amf0::V::Num(1f64.to_bits()),
            crate::refmodel::amf0::V::Obj(vec![("app".into(), crate::refmodel::amf0::V::Str("a".into()))])], &Default::default());
        let mut n = 0u64;
        for kind in 0..2u8 {
            for w in [50u32, 300, 1000] {
                for first_window in [true, false] {
                    let g = G { w0: w, sizes: vec![], reannounce: vec![], acks: AtomicU64::new(0), exact_landings: AtomicU64::new(0), reannouncements: AtomicU64::new(0), others: AtomicU64::new(0) };
                    let mut script: Vec<Act> = Vec::new();
                    if first_window {
                        script.push(Act::Reannounce(w));
                    }
                    if kind == 0 {
                        script.push(Act::Other(20, connect_body.clone()));
                    } else {
                        script.push(Act::Call(20));
                    }
                    if !first_window {
                        script.push(Act::Reannounce(w));
                    }
                    script.extend(vec![Act::Call(7), Act::App, Act::Call(5), Act::Call(w as usize), Act::Call(0), Act::Call(w as usize / 2 + 1), Act::Call(w as usize / 2 + 1)]);
                    let mut cur = fresh(kind);
                    let mut done: Vec<Value> = Vec::new();
                    for a in script.iter() {
                        let o = g.step(&cur, a);
                        ti += o.impl_steps;
                        tt += 1;
                        done.push(g.describe(a));
                        if let Some((sig, d)) = o.viol.into_iter().next() {
                            run.violation(&format!("{}/{}", sig, if kind == 0 { "server" } else { "client" }), &d, json!({"session": if kind == 0 { "server" } else { "client" }, "window": w, "graph": "application calls between input calls", "ops": done}));
                            break;
                        }
                        cur = match o.succ.into_iter().next() {
                            Some(x) => x,
                            None => break,
                        };
                    }
                    n += 1;
                }
            }
        }
        run.count("application_call_scripts", n);
    }
    // ---- a client whose connection request was accepted: it has sent its own window announcement and chunk size
    //      (two more 4-byte control messages on the protocol control chunk stream) before its acknowledgements ----
    {
        use crate::refmodel::amf0::{encode_seq, V};
        let mut n = 0u64;
        for w in [50u32, 300] {
            for first_window in [true, false] {
                let g = G { w0: w, sizes: vec![], reannounce: vec![], acks: AtomicU64::new(0), exact_landings: AtomicU64::new(0), reannouncements: AtomicU64::new(0), others: AtomicU64::new(0) };
                let mut cur = fresh(1);
                // the application asks for a connection; the transaction number is read from the emitted command
                let tx_bits = {
                    let o = match &mut cur.sess {
                        Sess::Client(h) => h.step(&CAct::RequestConnection { app: "a".into() }),
                        _ => unreachable!(),
                    };
                    ti += 1;
                    let outs = match decode_with_lib(&mut cur.de, &o.packets) {
                        Ok(x) => x,
                        Err(e) => {
                            run.violation("C17/undecodable-output/client", &e, json!({"session": "client", "graph": "accepted connection", "ops": ["request_connection"]}));
                            continue;
                        }
                    };
                    outs.iter().find_map(|x| if let M::Command { name, tx, .. } = &x.m { if name == "connect" { Some(*tx) } else { None } } else { None })
                };
                let tx_bits = match tx_bits {
                    Some(b) => b,
                    None => continue, // no connect command was emitted: not this property's subject (C10 judges it)
                };
                let result = encode_seq(&[V::Str("_result".into()), V::Num(tx_bits), V::Null, V::Obj(vec![("code".into(), V::Str("NetConnection.Connect.Success".into()))])], &Default::default());
                let mut script: Vec<Act> = Vec::new();
                if first_window {
                    script.push(Act::Reannounce(w));
                }
                script.push(Act::Other(20, result));
                if !first_window {
                    script.push(Act::Reannounce(w));
                }
                script.extend(vec![Act::Call(w as usize - 1), Act::Call(1), Act::Call(w as usize), Act::Other(4, vec![0, 6, 0, 0, 0, 9]), Act::Call(w as usize + 3), Act::Call(0),
                    Act::Call(w as usize / 2 + 1), Act::Call(w as usize / 2 + 1), Act::Call(2 * w as usize)]);
                let mut done: Vec<Value> = vec![json!("application: request_connection")];
                for a in script.iter() {
                    let o = g.step(&cur, a);
                    ti += o.impl_steps;
                    tt += 1;
                    done.push(g.describe(a));
                    if let Some((sig, d)) = o.viol.into_iter().next() {
                        run.violation(&format!("{}/client", sig), &d, json!({"session": "client", "window": w, "graph": "accepted connection", "ops": done}));
                        break;
                    }
                    cur = match o.succ.into_iter().next() {
                        Some(x) => x,
                        None => break,
                    };
                }
                acks += g.acks.load(Ordering::Relaxed);
                n += 1;
            }
        }
        run.count("accepted_client_scripts", n);
    }
    // ---- a publishing (and a playing) stream is closed / deleted while a window is in force: nothing but the byte
    //      count decides about acknowledgements ----
    {
        use crate::refmodel::amf0::{encode_seq, V};
        let cmd = |name: &str, tx: f64, args: Vec<V>| {
            let mut vals = vec![V::Str(name.into()), V::Num(tx.to_bits()), V::Null];
            vals.extend(args);
            encode_seq(&vals, &Default::default())
        };
        let connect = encode_seq(&[V::Str("connect".into()), V::Num(1f64.to_bits()), V::Obj(vec![("app".into(), V::Str("a".into()))])], &Default::default());
        let mut n = 0u64;
        for w in [5_000u32, 300, 40] {
            for (second, closer) in [("publish", "deleteStream"), ("publish", "closeStream"), ("play", "deleteStream"), ("play", "closeStream")] {
                let g = G { w0: w, sizes: vec![], reannounce: vec![], acks: AtomicU64::new(0), exact_landings: AtomicU64::new(0), reannouncements: AtomicU64::new(0), others: AtomicU64::new(0) };
                let req_args = if second == "publish" { vec![V::Str("k".into()), V::Str("live".into())] } else { vec![V::Str("k".into())] };
                let script = vec![
                    Act::Reannounce(w), Act::Other(20, connect.clone()), Act::AppAccept(0), Act::Other(20, cmd("createStream", 2.0, vec![])),
                    Act::OtherOn(1, 20, cmd(second, 0.0, req_args)), Act::AppAccept(1), Act::Call(9), Act::OtherOn(1, 8, vec![0xAF, 1, 2, 3]),
                    if closer == "deleteStream" { Act::Other(20, cmd(closer, 0.0, vec![V::Num(1f64.to_bits())])) } else { Act::OtherOn(1, 20, cmd(closer, 0.0, vec![V::Num(1f64.to_bits())])) },
                    Act::Call(3), Act::Call(w as usize), Act::Call(1),
                ];
                let mut cur = fresh(0);
                let mut done: Vec<Value> = Vec::new();
                for a in script.iter() {
                    let o = g.step(&cur, a);
                    ti += o.impl_steps;
                    tt += 1;
                    done.push(g.describe(a));
                    if let Some((sig, d)) = o.viol.into_iter().next() {
                        run.violation(&format!("{}/server", sig), &d, json!({"session": "server", "window": w, "graph": format!("{} then {}", second, closer), "ops": done}));
                        break;
                    }
                    cur = match o.succ.into_iter().next() {
                        Some(x) => x,
                        None => break,
                    };
                }
                n += 1;
            }
        }
        run.count("stream_lifecycle_scripts", n);
    }
    // ---- sampled large windows (labelled as sampled, as the property itself does) ----
    let big: Vec<u32> = if thorough { vec![100, 4096, 65_535, 1 << 24, 1 << 31, u32::MAX] } else { vec![100, 65_535, 1 << 24] };
    let mut sampled = 0u64;
    for kind in 0..2u8 {
        for &w in big.iter() {
            sampled += 1;
            if let Err((sig, d)) = big_window(kind, w, run.seed, &mut ti) {
                run.violation(&format!("{}/{}", sig, if kind == 0 { "server" } else { "client" }), &d, json!({"session": if kind == 0 { "server" } else { "client" }, "window": w, "script": "sampled large window"}));
            }
        }
    }
    run.set("states", json!(ts));
    run.set("transitions", json!(tt));
    run.set("traces_validated_against_impl", json!(ti));
    run.set("exhaustive", json!(false));
    run.set("small_windows_closed", json!(all_fix));
    run.set("windows_exhaustive", json!(format!("every window 1..={} for both session kinds, reached from W=1 through mid-stream re-announcements (W-1, W+1, 2W, 1); one closed graph per session kind", wmax)));
    run.set("windows_sampled", json!(big));
    run.set("per_window", json!(per_w));
    run.count("acknowledgements_checked", acks);
    run.count("calls_landing_exactly_on_the_window", exact);
    run.count("re_announcements_mid_stream", reann);
    run.count("calls_carrying_other_peer_messages", others);
    run.count("sampled_large_window_scripts", sampled);
    run.set("explanation", json!("state = (real session, model byte counter, position in an endless valid chunk stream of Abort messages); actions = one handle_input call of s bytes (every s in 0..2W+1 for W<=8, boundary sizes above), a call that re-announces the window, or a call that carries another message a peer may send at any time (Set Peer Bandwidth below W, an Acknowledgement, a ping request, Set Chunk Size); on every call the Acknowledgement messages decoded from the results must be exactly what the counter model prescribes (none, or one carrying the byte count)"));
    run.sample(json!({"session": "client", "W": 3, "ops": [{"handle_input_call_of_bytes": 2}, {"handle_input_call_of_bytes": 1}], "expect": "no ack, then one Acknowledgement(3)"}));
    run.assume("the invariant is stated for the window in force when a call starts; the bytes of the call that first announces a window are not counted (the window is learned inside that call)");
    run.assume("windows above the exhaustive range are sampled with scripted call sequences (the property statement marks them as sampled)");
    if run.violation_count() == 0 {
        run.require_hist(&["acknowledgements_checked", "calls_landing_exactly_on_the_window", "re_announcements_mid_stream"]);
    }
}

/// Restricts re-announcements so that the window stays bounded (finite graph).
struct Bounded<'a> {
    inner: &'a G,
    wcap: u32,
}

impl<'a> Graph for Bounded<'a> {
    type State = St;
    type Action = Act;
    fn actions(&self, s: &St) -> Vec<Act> {
        let w = s.w.unwrap_or(self.inner.w0);
        let mut v: Vec<Act> = Vec::new();
        let mut sizes: Vec<usize> = if w <= 8 { (0..=(2 * w as usize + 1)).collect() } else { vec![0, 1, 2, w as usize - 1, w as usize, w as usize + 1, 2 * w as usize + 1] };
        sizes.sort();
        sizes.dedup();
        for s in sizes {
            v.push(Act::Call(s));
        }
        let mut re: Vec<u32> = vec![1, w.saturating_sub(1).max(1), w + 1, 2 * w];
        re.sort();
        re.dedup();
        for r in re {
            if r <= self.wcap && r != w {
                v.push(Act::Reannounce(r));
            }
        }
        // messages a peer may send at any time; for this property they are just bytes
        let below = w.saturating_sub(1).max(1);
        v.push(Act::Other(6, vec![0, 0, 0, 1, 2])); // Set Peer Bandwidth 1, dynamic
        let mut spb = below.to_be_bytes().to_vec();
        spb.push(0);
        v.push(Act::Other(6, spb)); // Set Peer Bandwidth W-1, hard
        v.push(Act::Other(3, vec![0, 0, 0, 5])); // an Acknowledgement from the peer
        v.push(Act::Other(4, vec![0, 6, 0, 0, 0, 9])); // ping request
        v.push(Act::Other(1, vec![0, 0, 0, 200])); // Set Chunk Size 200
        v
    }
    fn step(&self, s: &St, a: &Act) -> StepOut<St> {
        self.inner.step(s, a)
    }
    fn key(&self, s: &St) -> u128 {
        self.inner.key(s)
    }
    fn describe(&self, a: &Act) -> Value {
        self.inner.describe(a)
    }
}

/// Scripted run for a large window: unknown-type messages of up to 2^24-1 bytes at a large chunk size.
fn big_window(kind: u8, w: u32, seed: u64, steps: &mut u64) -> Result<(), (String, String)> {
    let mut st = fresh(kind);
    // peer: set a big chunk size, then announce the window
    let mut first = vec![0x02, 0, 0, 0, 0, 0, 4, 1, 0, 0, 0, 0];
    first.extend_from_slice(&0x7FFF_FFFFu32.to_be_bytes());
    first.extend_from_slice(&[0x02, 0, 0, 0, 0, 0, 4, 5, 0, 0, 0, 0]);
    first.extend_from_slice(&w.to_be_bytes());
    let (p, e, pk) = st.sess.input(&first);
    *steps += 1;
    if p.is_some() || e.is_some() {
        return Err(("C17/error-on-valid-stream".into(), format!("announcement: {:?} {:?}", p, e)));
    }
    let a0 = acks_in(&mut st.de, &pk).map_err(|e| ("C17/undecodable-output".to_string(), e))?;
    if !a0.is_empty() {
        return Err(("C17/ack-unexpected".into(), format!("acknowledgement {:?} in the call that announces the window", a0)));
    }
    // a valid stream made of unknown-type (30) messages; message size chosen so that calls are cheap
    let msg_len: usize = if w as u64 >= (1 << 24) { (1 << 24) - 1 - 12 } else { 1000 };
    let mut msg = vec![0x03, 0, 0, 0];
    msg.extend_from_slice(&(msg_len as u32).to_be_bytes()[1..]);
    msg.push(30);
    msg.extend_from_slice(&[0, 0, 0, 0]);
    msg.resize(12 + msg_len, 0x5A);
    let unit = msg.len() as u64; // bytes per message incl. header
    let mut c: u64 = 0;
    let mut pos: usize = 0; // offset inside the current message
    let mut rounds = 0;
    // three ack cycles: land exactly on W, cross it by one, and stop one short first
    let targets: [i64; 3] = [0, 1, -1];
    let _ = seed;
    while rounds < 3 {
        // deliver until the counter is within one call of W
        let goal = (w as i64 + targets[rounds]).max(1) as u64;
        while c < goal {
            let want = (goal - c).min(unit - pos as u64).min(1 << 24) as usize;
            // never let the u32 counter overflow (>= 4 GiB of input is outside the bound)
            if c + want as u64 > u32::MAX as u64 {
                return Ok(());
            }
            let bytes = &msg[pos..pos + want];
            let (p, e, pk) = st.sess.input(bytes);
            *steps += 1;
            if p.is_some() || e.is_some() {
                return Err(("C17/error-on-valid-stream".into(), format!("{:?} {:?}", p, e)));
            }
            pos = (pos + want) % msg.len();
            c += want as u64;
            let got = acks_in(&mut st.de, &pk).map_err(|e| ("C17/undecodable-output".to_string(), e))?;
            let mut expect = Vec::new();
            if c >= w as u64 {
                expect.push(c as u32);
            }
            if got != expect {
                return Err((
                    (if got.is_empty() { "C17/ack-missing" } else if expect.is_empty() { "C17/ack-unexpected" } else { "C17/ack-value" }).to_string(),
                    format!("window {}: after a call of {} bytes with {} bytes outstanding expected {:?}, got {:?}", w, want, c, expect, got),
                ));
            }
            if c >= w as u64 {
                c = 0;
                break;
            }
        }
        rounds += 1;
    }
    Ok(())
}
