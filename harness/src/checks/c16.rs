//! C16 — messages interleaved on different chunk stream ids are each reassembled intact.
//! E3: the R1 encoder produces 2-3 in-flight multi-chunk messages on distinct csids; ALL
//! order-preserving interleavings of their chunks (optionally with an in-band Set Chunk Size at
//! any gap) are fed to the real deserializer.

use crate::ev::Run;
use crate::refmodel::chunk::{InFlight, Msg, SpecEncoder};
use crate::util::{guarded, hex, pattern};
use rayon::prelude::*;
use rml_rtmp::chunk_io::ChunkDeserializer;
use serde_json::{json, Value};
use std::sync::atomic::{AtomicU64, Ordering};

#[derive(Clone, Debug)]
struct MsgSpec {
    csid: u32,
    form: u8,
    ty: u8,
    msid: u32,
    ts: u32,
    len: usize,
    /// Some(prev_ts): a complete message was sent on this csid before, with this timestamp and the
    /// same type/msid; `fmt` is then any format legal relative to it.
    hist: Option<(u32, usize)>,
    fmt: u8,
}

#[derive(Clone, Debug)]
struct Case {
    cs: u32,
    msgs: Vec<MsgSpec>,
    schedule: Vec<usize>,
    /// (gap index in schedule, new chunk size)
    resize: Option<(usize, u32)>,
}

fn interleavings(counts: &[usize]) -> Vec<Vec<usize>> {
    fn rec(rem: &mut Vec<usize>, cur: &mut Vec<usize>, out: &mut Vec<Vec<usize>>) {
        if rem.iter().all(|&x| x == 0) {
            out.push(cur.clone());
            return;
        }
        for i in 0..rem.len() {
            if rem[i] > 0 {
                rem[i] -= 1;
                cur.push(i);
                rec(rem, cur, out);
                cur.pop();
                rem[i] += 1;
            }
        }
    }
    let mut out = Vec::new();
    rec(&mut counts.to_vec(), &mut Vec::new(), &mut out);
    out
}

fn describe(c: &Case) -> Value {
    json!({
        "chunk_size": c.cs,
        "messages": c.msgs.iter().map(|m| json!({"csid": m.csid, "csid_form": m.form, "type_id": m.ty, "message_stream_id": m.msid,
            "timestamp": m.ts, "payload_len": m.len, "first_chunk_fmt": m.fmt,
            "earlier_complete_message_on_csid": m.hist.map(|(t, l)| json!({"timestamp": t, "payload_len": l}))})).collect::<Vec<_>>(),
        "chunk_schedule": c.schedule,
        "set_chunk_size_at_gap": c.resize.map(|(g, n)| json!({"gap": g, "new_size": n})),
    })
}

struct Built {
    /// each wire unit (one chunk) and the messages expected to be complete after it
    units: Vec<(Vec<u8>, Vec<Msg>)>,
    overlapped: bool,
}

fn build(c: &Case) -> Built {
    let mut enc = SpecEncoder::new();
    let mut units: Vec<(Vec<u8>, Vec<Msg>)> = Vec::new();
    if c.cs != 128 {
        let m = Msg { type_id: 1, msid: 0, ts: 0, payload: c.cs.to_be_bytes().to_vec() };
        for ch in enc.encode(2, 1, 0, &m) {
            units.push((ch, vec![]));
        }
        let n = units.len();
        units[n - 1].1.push(m);
    }
    // history messages, strictly one after another
    for (i, m) in c.msgs.iter().enumerate() {
        if let Some((t, l)) = m.hist {
            let hm = Msg { type_id: m.ty, msid: m.msid, ts: t, payload: pattern(1000 + i as u32, l) };
            let chunks = enc.encode(m.csid, m.form, 0, &hm);
            let n = chunks.len();
            for (j, ch) in chunks.into_iter().enumerate() {
                units.push((ch, if j + 1 == n { vec![hm.clone()] } else { vec![] }));
            }
        }
    }
    let msgs: Vec<Msg> = c.msgs.iter().enumerate().map(|(i, m)| Msg { type_id: m.ty, msid: m.msid, ts: m.ts, payload: pattern(7 + i as u32, m.len) }).collect();
    let mut fl: Vec<Option<InFlight>> = c.msgs.iter().map(|_| None).collect();
    let mut cs = enc.chunk_size;
    let mut overlapped = false;
    let emit = |i: usize, enc: &mut SpecEncoder, fl: &mut Vec<Option<InFlight>>, units: &mut Vec<(Vec<u8>, Vec<Msg>)>, cs: u32, overlapped: &mut bool| {
        if fl[i].is_none() {
            let m = &c.msgs[i];
            assert!(enc.legal_fmts(m.csid, &msgs[i]).contains(&m.fmt), "harness generated an illegal header format");
            fl[i] = Some(enc.begin(m.csid, m.form, m.fmt, &msgs[i]));
        }
        let f = fl[i].as_mut().unwrap();
        if f.done() {
            return;
        }
        let ch = f.next_chunk(cs);
        let done = f.done();
        if !done {
            // does another message have bytes in flight right now?
        }
        units.push((ch, if done { vec![msgs[i].clone()] } else { vec![] }));
        let inflight = fl.iter().filter(|x| x.as_ref().map(|f| !f.done() && f.first_header.is_none()).unwrap_or(false)).count();
        if inflight >= 2 {
            *overlapped = true;
        }
    };
    for (pos, &i) in c.schedule.iter().enumerate() {
        if let Some((g, n)) = c.resize {
            if g == pos {
                let m = Msg { type_id: 1, msid: 0, ts: 0, payload: n.to_be_bytes().to_vec() };
                // the Set Chunk Size message itself is chunked under the size in force
                let mut f = enc.begin(2, 1, 0, &m);
                while !f.done() {
                    let ch = f.next_chunk(cs);
                    let done = f.done();
                    units.push((ch, if done { vec![m.clone()] } else { vec![] }));
                }
                cs = n;
                enc.chunk_size = n;
            }
        }
        emit(i, &mut enc, &mut fl, &mut units, cs, &mut overlapped);
    }
    // flush whatever is left (after a shrink the schedule has too few slots)
    loop {
        let mut any = false;
        for i in 0..c.msgs.len() {
            let pending = match fl[i] {
                None => true,
                Some(ref f) => !f.done(),
            };
            if pending {
                any = true;
                emit(i, &mut enc, &mut fl, &mut units, cs, &mut overlapped);
            }
        }
        if !any {
            break;
        }
    }
    Built { units, overlapped }
}

fn msg_eq(got: &rml_rtmp::messages::MessagePayload, exp: &Msg) -> Option<String> {
    if got.type_id != exp.type_id {
        return Some(format!("type {} instead of {}", got.type_id, exp.type_id));
    }
    if got.message_stream_id != exp.msid {
        return Some(format!("message stream id {} instead of {}", got.message_stream_id, exp.msid));
    }
    if got.timestamp.value != exp.ts {
        return Some(format!("timestamp {} instead of {}", got.timestamp.value, exp.ts));
    }
    if &got.data[..] != &exp.payload[..] {
        return Some(format!("payload {} ({} bytes) instead of {} ({} bytes)", hex(&got.data[..got.data.len().min(12)]), got.data.len(), hex(&exp.payload[..exp.payload.len().min(12)]), exp.payload.len()));
    }
    None
}

/// Feeds pieces; after each piece drains with empty input.  `expect_after[i]` lists the messages
/// that must have been delivered by the end of piece i (cumulative count check at each piece when
/// `per_piece` is true; otherwise only the final sequence is compared).
fn run_delivery(pieces: &[&[u8]], expected: &[Msg], per_piece_counts: Option<&[usize]>, steps: &AtomicU64) -> Result<(), (String, String)> {
    let mut d = ChunkDeserializer::new();
    let mut got = 0usize;
    for (pi, p) in pieces.iter().enumerate() {
        let mut input: &[u8] = p;
        loop {
            steps.fetch_add(1, Ordering::Relaxed);
            let r = match guarded(|| d.get_next_message(input)) {
                Err(panic) => return Err(("panic".into(), format!("deserializer panicked: {}", panic))),
                Ok(Err(e)) => return Err(("error".into(), format!("deserializer failed: {:?}", e))),
                Ok(Ok(r)) => r,
            };
            input = &[];
            match r {
                None => break,
                Some(m) => {
                    if got >= expected.len() {
                        return Err(("extra".into(), format!("unexpected extra message of type {}", m.type_id)));
                    }
                    if let Some(df) = msg_eq(&m, &expected[got]) {
                        return Err(("mixed".into(), format!("message #{} delivered with {}", got, df)));
                    }
                    if m.type_id == 1 && m.data.len() >= 4 {
                        let n = u32::from_be_bytes([m.data[0], m.data[1], m.data[2], m.data[3]]);
                        if let Err(e) = d.set_max_chunk_size(n as usize) {
                            return Err(("setchunk".into(), format!("{:?}", e)));
                        }
                    }
                    got += 1;
                }
            }
        }
        if let Some(counts) = per_piece_counts {
            if got != counts[pi] {
                return Err(("timing".into(), format!("after wire chunk #{} {} messages had been delivered, expected {} (a message must be delivered when its last chunk arrives)", pi, got, counts[pi])));
            }
        }
    }
    if got != expected.len() {
        return Err(("missing".into(), format!("{} of {} messages delivered", got, expected.len())));
    }
    Ok(())
}

fn check_case(c: &Case, run: &Run, steps: &AtomicU64, stats: &[AtomicU64; 4]) {
    let b = build(c);
    stats[0].fetch_add(1, Ordering::Relaxed);
    if b.overlapped {
        stats[1].fetch_add(1, Ordering::Relaxed);
    }
    if c.resize.is_some() {
        stats[2].fetch_add(1, Ordering::Relaxed);
    }
    let expected: Vec<Msg> = b.units.iter().flat_map(|u| u.1.clone()).collect();
    let mut counts = Vec::new();
    let mut acc = 0;
    for u in b.units.iter() {
        acc += u.1.len();
        counts.push(acc);
    }
    let pieces: Vec<&[u8]> = b.units.iter().map(|u| &u.0[..]).collect();
    let all: Vec<u8> = b.units.iter().flat_map(|u| u.0.clone()).collect();
    let class = if b.overlapped { "overlapping" } else { "sequential" };
    let rs = if c.resize.is_some() { "/chunk-size-change-mid-message" } else { "" };
    if let Err((cls, d)) = run_delivery(&pieces, &expected, Some(&counts), steps) {
        run.violation(&format!("C16/{}{}/{}", class, rs, cls), &format!("chunk-by-chunk delivery: {} ; stream {}", d, hex(&all)), describe(c));
        return;
    }
    if let Err((cls, d)) = run_delivery(&[&all[..]], &expected, None, steps) {
        run.violation(&format!("C16/{}{}/{}", class, rs, cls), &format!("whole-stream delivery: {} ; stream {}", d, hex(&all)), describe(c));
        return;
    }
    if all.len() <= 200 {
        stats[3].fetch_add(1, Ordering::Relaxed);
        let bw: Vec<&[u8]> = all.chunks(1).collect();
        if let Err((cls, d)) = run_delivery(&bw, &expected, None, steps) {
            run.violation(&format!("C16/{}{}/{}", class, rs, cls), &format!("bytewise delivery: {} ; stream {}", d, hex(&all)), describe(c));
        }
    }
}

pub fn run(run: &Run) {
    let thorough = run.thorough();
    // 65 (2-byte form) and 320 (3-byte form) differ only in which length byte is significant:
    // 320 = 64 + 256*1 + 0, 65 = 64 + 1; likewise 66 / 576
    let csid_menu: Vec<(u32, u8)> = if thorough { vec![(3, 1), (4, 1), (65, 2), (320, 3), (64, 2), (576, 3), (66, 2)] } else { vec![(3, 1), (4, 1), (65, 2), (320, 3)] };
    let ts_menu: Vec<u32> = vec![5, 0xFF_FFFF, 0x100_0000, 0x100_0007];
    let chunk_sizes: Vec<u32> = if thorough { vec![1, 2, 128] } else { vec![2, 128] };
    // outer combos are generated sequentially, evaluated in parallel
    let mut outers: Vec<(u32, Vec<MsgSpec>)> = Vec::new();
    for &cs in chunk_sizes.iter() {
        let lens: Vec<usize> = vec![cs as usize + 1, 2 * cs as usize, 2 * cs as usize + 1];
        // --- two messages ---
        for a in 0..csid_menu.len() {
            for b in 0..csid_menu.len() {
                if a == b || (!thorough && (a > b)) {
                    continue;
                }
                for &la in lens.iter() {
                    for &lb in lens.iter() {
                        for &ta in ts_menu.iter() {
                            for &tb in ts_menu.iter() {
                                if !thorough && ta != 5 && tb != 5 && ta != tb {
                                    continue;
                                }
                                // header variants: fmt 0 without history; with history every legal fmt
                                let mut va = vec![(None, 0u8)];
                                let mut vb = vec![(None, 0u8)];
                                for (t, l, v) in [(ta, la, &mut va), (tb, lb, &mut vb)] {
                                    // history with the same length (fmt 2/3 possible) : prev ts chosen so that
                                    // delta == prev delta is possible (prev ts = t/2 when even) else t-1
                                    let prev = if t % 2 == 0 { t / 2 } else { t.wrapping_sub(1) };
                                    v.push((Some((prev, l)), 1));
                                    v.push((Some((prev, l)), 2));
                                    if t % 2 == 0 {
                                        v.push((Some((prev, l)), 3));
                                    }
                                    v.push((Some((prev, l + 1)), 1));
                                    // a delta of 2^24 (extended) against a non-zero earlier timestamp
                                    if t >= 0x100_0001 {
                                        v.push((Some((t - 0x100_0000, l)), 1));
                                        v.push((Some((t - 0x100_0000, l)), 2));
                                    }
                                }
                                for &(ha, fa) in va.iter() {
                                    for &(hb, fb) in vb.iter() {
                                        if !thorough && ha.is_some() && hb.is_some() && fa != fb {
                                            continue;
                                        }
                                        outers.push((cs, vec![
                                            MsgSpec { csid: csid_menu[a].0, form: csid_menu[a].1, ty: 8, msid: 1, ts: ta, len: la, hist: ha, fmt: fa },
                                            MsgSpec { csid: csid_menu[b].0, form: csid_menu[b].1, ty: 9, msid: 2, ts: tb, len: lb, hist: hb, fmt: fb },
                                        ]));
                                    }
                                }
                            }
                        }
                    }
                }
            }
        }
        // --- three messages ---
        let triples: Vec<[usize; 3]> = vec![[0, 1, 2], [1, 2, 3], [0, 2, 3], [3, 1, 0]];
        for tr in triples.iter() {
            for &l in lens.iter() {
                for hist in [false, true] {
                    let mk = |k: usize, ty: u8, ts: u32| MsgSpec {
                        csid: csid_menu[tr[k]].0, form: csid_menu[tr[k]].1, ty, msid: k as u32 + 1, ts, len: l,
                        hist: if hist { Some((ts / 2, l)) } else { None }, fmt: if hist { 2 } else { 0 },
                    };
                    outers.push((cs, vec![mk(0, 8, 6), mk(1, 9, 0xFF_FFFF + 1), mk(2, 18, 0x200_0000)]));
                }
            }
        }
    }
    let steps = AtomicU64::new(0);
    let stats: [AtomicU64; 4] = [AtomicU64::new(0), AtomicU64::new(0), AtomicU64::new(0), AtomicU64::new(0)];
    // new sizes that do and do not divide what has already been received, smaller and larger than the old one
    let resize_for = |cs: u32| -> Vec<u32> {
        let mut v: Vec<u32> = if thorough { vec![1, 3, cs + 1, 2 * cs + 1, 100, 200, 4096, 0x7FFF_FFFF] } else { vec![1, cs + 1, 4096] };
        if cs > 2 {
            v.push(cs - 1);
            if !thorough {
                v.push(100);
                v.push(200);
            }
        }
        v.sort();
        v.dedup();
        v.retain(|n| *n != cs);
        v
    };
    let resize_menu: Vec<u32> = { let mut v = resize_for(2); v.extend(resize_for(128)); v.sort(); v.dedup(); v };
    outers.par_iter().for_each(|(cs, msgs)| {
        let counts: Vec<usize> = msgs.iter().map(|m| (m.len + *cs as usize - 1) / *cs as usize).collect();
        for sched in interleavings(&counts) {
            let base = Case { cs: *cs, msgs: msgs.clone(), schedule: sched.clone(), resize: None };
            check_case(&base, run, &steps, &stats);
            // an in-band Set Chunk Size at every gap (two-message cases; three-message cases: thorough only)
            if msgs.len() == 2 || thorough {
                for g in 1..sched.len() {
                    for &n in resize_for(*cs).iter() {
                        let c = Case { cs: *cs, msgs: msgs.clone(), schedule: sched.clone(), resize: Some((g, n)) };
                        check_case(&c, run, &steps, &stats);
                    }
                }
            }
        }
    });
    // many messages in flight at once (tables of partial messages that are bounded or pruned): N two- and
    // three-chunk messages on N distinct chunk stream ids, chunks sent round-robin, and in a sliding window
    for n in [5usize, 16, 17, 40, 300] {
        for cs in [2u32, 128] {
            let msgs: Vec<MsgSpec> = (0..n).map(|i| {
                let csid = if i % 3 == 0 { 3 + i as u32 } else if i % 3 == 1 { 64 + i as u32 } else { 320 + i as u32 };
                let form = if csid <= 63 { 1 } else if csid <= 319 { 2 } else { 3 };
                MsgSpec { csid, form, ty: if i % 2 == 0 { 8 } else { 9 }, msid: 1 + (i % 3) as u32, ts: 5 + i as u32, len: cs as usize * (2 + i % 2) + 1, hist: None, fmt: 0 }
            }).filter(|m| m.csid <= 63 || m.form > 1).collect();
            let n = msgs.len();
            let counts: Vec<usize> = msgs.iter().map(|m| (m.len + cs as usize - 1) / cs as usize).collect();
            // round robin
            let mut sched: Vec<usize> = Vec::new();
            for round in 0..4 {
                for i in 0..n {
                    if round < counts[i] {
                        sched.push(i);
                    }
                }
            }
            check_case(&Case { cs, msgs: msgs.clone(), schedule: sched, resize: None }, run, &steps, &stats);
            // sliding window: message i+1 starts before message i has finished
            let mut sched: Vec<usize> = Vec::new();
            let mut left = counts.clone();
            for i in 0..n {
                sched.push(i);
                left[i] -= 1;
                if i > 0 {
                    while left[i - 1] > 0 {
                        sched.push(i - 1);
                        left[i - 1] -= 1;
                    }
                }
            }
            while left[n - 1] > 0 {
                sched.push(n - 1);
                left[n - 1] -= 1;
            }
            check_case(&Case { cs, msgs, schedule: sched, resize: None }, run, &steps, &stats);
        }
    }
    let total = stats[0].load(Ordering::Relaxed);
    let overl = stats[1].load(Ordering::Relaxed);
    run.set("states", json!(total));
    run.set("transitions", json!(steps.load(Ordering::Relaxed)));
    run.set("traces_validated_against_impl", json!(total));
    run.set("evaluations", json!(total));
    run.set("distinct_nontrivial", json!(overl));
    run.set("rule", json!("each case is a distinct (chunk size, message set with header formats/history, interleaving, optional Set Chunk Size position and value); non-trivial = at least two messages had chunks in flight at the same time"));
    run.set("exhaustive", json!(true));
    run.count("cases", total);
    run.count("cases_with_two_or_more_messages_in_flight", overl);
    run.count("cases_with_chunk_size_change_mid_message", stats[2].load(Ordering::Relaxed));
    run.count("cases_also_delivered_bytewise", stats[3].load(Ordering::Relaxed));
    run.set("alphabet", json!({"csids": csid_menu, "timestamps": ts_menu, "chunk_sizes": chunk_sizes, "payload_lens": "cs+1, 2cs, 2cs+1", "set_chunk_size_values": resize_menu,
        "first_chunk_formats": "fmt 0 without history; fmt 1/2/3 (where legal) relative to an earlier complete message on the same csid"}));
    run.set("explanation", json!("all order-preserving interleavings of the chunks of 2 and 3 multi-chunk messages on distinct chunk stream ids are enumerated (a 'state' here is one complete interleaved stream; 'transitions' are deserializer calls); each stream is delivered chunk by chunk (message must appear exactly when its last chunk arrives), whole, and bytewise"));
    let s = Case { cs: 2, msgs: vec![
        MsgSpec { csid: 3, form: 1, ty: 8, msid: 1, ts: 5, len: 4, hist: None, fmt: 0 },
        MsgSpec { csid: 4, form: 1, ty: 9, msid: 2, ts: 5, len: 4, hist: None, fmt: 0 }], schedule: vec![0, 1, 0, 1], resize: None };
    run.sample(describe(&s));
    run.assume("the reference encoder R1 is a faithful reading of RTMP 1.0 section 5.3.1/5.4.1 (a Set Chunk Size applies to all chunks after it, including those of messages already in flight)");
    if run.violation_count() == 0 {
        run.require_hist(&["cases_with_two_or_more_messages_in_flight", "cases_with_chunk_size_change_mid_message", "cases_also_delivered_bytewise"]);
    }
}
