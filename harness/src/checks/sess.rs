//! Shared harness for the session checks (C09, C10, C17, C18, C03, C15, C02): wraps a real
//! `ServerSession` / `ClientSession` together with a peer codec, turns alphabet symbols into wire
//! bytes and decodes what the session returns.

use crate::refmodel::amf0::V;
use crate::refmodel::chunk::{Msg, SpecDecoder};
use crate::refmodel::msg::{self as r2, M};
use crate::util::guarded;
use bytes::Bytes;
use rml_rtmp::chunk_io::{ChunkDeserializer, ChunkSerializer, Packet};
use rml_rtmp::messages::MessagePayload;
use rml_rtmp::sessions::{
    ClientSession, ClientSessionConfig, ClientSessionEvent, ClientSessionResult, PublishRequestType, ServerSession, ServerSessionConfig,
    ServerSessionEvent, ServerSessionResult, StreamMetadata,
};
use rml_rtmp::time::RtmpTimestamp;
use rml_rtmp::verif_hooks::{set_clock_backwards, set_clock_ns};
use serde_json::{json, Value};

pub fn num(f: f64) -> V {
    V::Num(f.to_bits())
}
pub fn s(x: &str) -> V {
    V::Str(x.to_string())
}
pub fn obj(p: Vec<(&str, V)>) -> V {
    V::Obj(p.into_iter().map(|(k, v)| (k.to_string(), v)).collect())
}

/// One decoded outbound message.
#[derive(Clone, Debug, PartialEq)]
pub struct Out {
    pub msid: u32,
    pub ts: u32,
    pub m: M,
    pub droppable: bool,
}

#[derive(Clone, Debug)]
pub struct Obs<E> {
    pub panicked: Option<String>,
    pub err: Option<String>,
    pub events: Vec<E>,
    pub packets: Vec<(Vec<u8>, bool)>,
    pub unhandleable: usize,
    /// order in which results were returned: (0, packet index) | (1, event index) | (2, _)
    pub order: Vec<(u8, usize)>,
}

impl<E> Obs<E> {
    pub fn empty() -> Obs<E> {
        Obs { panicked: None, err: None, events: Vec::new(), packets: Vec::new(), unhandleable: 0, order: Vec::new() }
    }
    pub fn ok(&self) -> bool {
        self.panicked.is_none() && self.err.is_none()
    }
}

fn empty_obs<E>() -> Obs<E> {
    Obs::empty()
}

pub fn set_clock_ms(ms: u64, backwards: bool) {
    set_clock_ns(ms.wrapping_mul(1_000_000));
    set_clock_backwards(backwards);
}

/// Decodes packets with the library's own deserializer (harness peer for C09/C10/C02).
pub fn decode_with_lib(de: &mut ChunkDeserializer, packets: &[(Vec<u8>, bool)]) -> Result<Vec<Out>, String> {
    let mut out = Vec::new();
    for (bytes, droppable) in packets {
        let mut input: &[u8] = bytes;
        loop {
            let r = guarded(|| de.get_next_message(input));
            input = &[];
            match r {
                Err(p) => return Err(format!("peer deserializer panicked: {}", p)),
                Ok(Err(e)) => return Err(format!("peer deserializer error: {:?}", e)),
                Ok(Ok(None)) => break,
                Ok(Ok(Some(p))) => {
                    if p.type_id == 1 && p.data.len() >= 4 {
                        let n = u32::from_be_bytes([p.data[0], p.data[1], p.data[2], p.data[3]]) & 0x7FFF_FFFF;
                        let _ = de.set_max_chunk_size(n as usize);
                    }
                    let m = match guarded(|| p.to_rtmp_message()) {
                        Ok(Ok(m)) => r2::from_lib(&m),
                        Ok(Err(e)) => return Err(format!("session emitted a message body that does not parse: {:?}", e)),
                        Err(pn) => return Err(format!("panic decoding emitted body: {}", pn)),
                    };
                    out.push(Out { msid: p.message_stream_id, ts: p.timestamp.value, m, droppable: *droppable });
                }
            }
        }
    }
    Ok(out)
}

/// Decodes packets with the independent specification decoder R1 + R2 bodies (C18).
pub fn decode_with_spec(sp: &mut SpecDecoder, packets: &[(Vec<u8>, bool)]) -> Result<Vec<Out>, String> {
    let mut out = Vec::new();
    for (bytes, droppable) in packets {
        let msgs: Vec<Msg> = sp.push(bytes)?;
        if sp.pending() != 0 {
            return Err(format!("{} bytes of a packet left unparsed by the specification decoder (a packet must consist of whole chunks)", sp.pending()));
        }
        if sp.any_in_progress() {
            return Err("a packet ended in the middle of a message".to_string());
        }
        sp.chunks.clear();
        for m in msgs {
            let body = r2::decode(m.type_id, &m.payload).map_err(|e| format!("message type {} body does not follow the specification: {}", m.type_id, e))?;
            out.push(Out { msid: m.msid, ts: m.ts, m: body, droppable: *droppable });
        }
    }
    Ok(out)
}

pub fn wire(ser: &mut ChunkSerializer, msid: u32, ts: u32, m: &M) -> Vec<u8> {
    let lib = r2::to_lib(m);
    let p = MessagePayload::from_rtmp_message(lib, RtmpTimestamp::new(ts), msid).expect("harness message serializes");
    ser.serialize(&p, false, false).expect("harness packet serializes").bytes
}

pub fn wire_raw(ser: &mut ChunkSerializer, msid: u32, ts: u32, type_id: u8, body: &[u8]) -> Vec<u8> {
    let p = MessagePayload { timestamp: RtmpTimestamp::new(ts), type_id, message_stream_id: msid, data: Bytes::from(body.to_vec()) };
    ser.serialize(&p, false, false).expect("harness packet serializes").bytes
}

pub fn command(name: &str, tx: f64, object: V, args: Vec<V>) -> M {
    M::Command { name: name.to_string(), tx: tx.to_bits(), object, args }
}

pub fn metadata_sample(variant: u8) -> (StreamMetadata, V) {
    let mut md = StreamMetadata::new();
    let mut props: Vec<(&str, V)> = Vec::new();
    if variant & 1 != 0 {
        md.video_width = Some(1920);
        props.push(("width", num(1920.0)));
    }
    if variant & 2 != 0 {
        md.audio_is_stereo = Some(true);
        props.push(("stereo", V::Bool(true)));
    }
    if variant & 4 != 0 {
        md.encoder = Some("enc".to_string());
        props.push(("encoder", s("enc")));
    }
    if variant & 8 != 0 {
        md.video_frame_rate = Some(29.97);
        props.push(("framerate", num(29.97f32 as f64)));
    }
    if variant & 16 != 0 {
        // every field, with values that do not survive rounding, narrowing to f32/u16/i32, or text normalisation
        let fr: f32 = if variant & 32 != 0 { 0.0004 } else { 30000.0 / 1001.0 };
        md.video_width = Some(u32::MAX);
        md.video_height = Some(0);
        md.video_codec_id = Some(7);
        md.video_frame_rate = Some(fr);
        md.video_bitrate_kbps = Some(16_777_217);
        md.audio_codec_id = Some(10);
        md.audio_bitrate_kbps = Some(0x8000_0001);
        md.audio_sample_rate = Some(44_100);
        md.audio_channels = Some(65_537);
        md.audio_is_stereo = Some(false);
        md.encoder = Some("Enc \u{e9}\u{0} ".to_string());
        props = vec![
            ("width", num(u32::MAX as f64)), ("height", num(0.0)), ("videocodecid", num(7.0)), ("framerate", num(fr as f64)), ("videodatarate", num(16_777_217.0)),
            ("audiocodecid", num(10.0)), ("audiodatarate", num(0x8000_0001u32 as f64)), ("audiosamplerate", num(44_100.0)), ("audiochannels", num(65_537.0)),
            ("stereo", V::Bool(false)), ("encoder", s("Enc \u{e9}\u{0} ")),
        ];
    }
    (md, obj(props))
}

// ---------------------------------------------------------------------------------------------
// server side
// ---------------------------------------------------------------------------------------------

#[derive(Clone)]
pub struct ServerH {
    pub s: ServerSession,
    pub peer_ser: ChunkSerializer,
    pub clock_ms: u64,
    pub clock_backwards: bool,
    /// Request ids in the order in which the session surfaced them.  Actions and models name a request by its
    /// POSITION in this list (0 = first surfaced request, ...), events are rewritten accordingly; the numbers the
    /// library picks are its own business as long as they are fresh (a reused number maps to its old position, which
    /// the models report).
    pub ids: Vec<u32>,
}

#[derive(Clone, Debug, PartialEq)]
pub enum SAct {
    // peer messages
    Connect { tx: f64, app: String },
    ConnectMalformed { shape: u8 },
    CreateStream { tx: f64 },
    Publish { sid: u32, key: String, mode: String },
    PublishMalformed { sid: u32, shape: u8 },
    /// well-formed publish / play with further arguments behind the ones the session reads
    PublishExtra { sid: u32, key: String, mode: String },
    PlayExtra { sid: u32, key: String },
    Play { sid: u32, key: String },
    PlayMalformed { sid: u32, shape: u8 },
    CloseStream { sid: u32 },
    DeleteStream { sid: u32 },
    CloseMalformed { delete: bool, shape: u8 },
    Audio { sid: u32, ts: u32, len: usize },
    Video { sid: u32, ts: u32, len: usize },
    Meta { sid: u32, variant: u8 },
    MetaMalformed { sid: u32, shape: u8 },
    Ping { ts: u32 },
    /// n ping requests (timestamps ts, ts+1, ...) delivered in ONE input call
    PingBurst { ts: u32, n: u8 },
    /// a ping request sent on a message stream other than 0 (user control messages SHOULD use stream 0; they need not)
    PingOnStream { msid: u32, ts: u32 },
    UnknownCommand,
    /// arbitrary message: (msid, type id, body)
    Raw { msid: u32, type_id: u8, body: Vec<u8> },
    // application calls
    Accept { id: u32 },
    Reject { id: u32 },
    FinishPlaying { sid: u32 },
    SendAudio { sid: u32, ts: u32, len: usize, droppable: bool },
    SendVideo { sid: u32, ts: u32, len: usize, droppable: bool },
    SendMeta { sid: u32, variant: u8 },
    SendPing,
    // environment
    Clock { ms: u64, backwards: bool },
}

/// Media payload for a tag: a position-dependent pattern whose first two bytes cycle (with the tag and the
/// length) through the values FLV tag bodies start with - key/inter/disposable frame + codec, AAC/AVC sequence
/// header and end-of-sequence markers, 0x00 and 0xFF - so that a session that looks into media bytes is noticed.
pub fn media_payload(tag: u32, len: usize) -> Vec<u8> {
    let mut v = crate::util::pattern(tag ^ 0xA5A5, len);
    const FIRST: [u8; 10] = [0x17, 0x27, 0xAF, 0x00, 0xFF, 0x12, 0x37, 0x2F, 0x57, 0x1C];
    const SECOND: [u8; 4] = [0x00, 0x01, 0x02, 0xFF];
    let k = (tag as usize).wrapping_mul(7).wrapping_add(len.wrapping_mul(3));
    if len >= 1 {
        v[0] = FIRST[k % FIRST.len()];
    }
    if len >= 2 {
        v[1] = SECOND[(k / FIRST.len()) % SECOND.len()];
    }
    v
}

impl ServerH {
    pub fn new(cfg: ServerSessionConfig, clock_ms: u64) -> Result<(ServerH, Obs<ServerSessionEvent>), String> {
        set_clock_ms(clock_ms, false);
        match guarded(|| ServerSession::new(cfg)) {
            Err(p) => Err(format!("panic: {}", p)),
            Ok(Err(e)) => Err(format!("{:?}", e)),
            Ok(Ok((s, results))) => {
                let mut o = empty_obs();
                collect_server(results, &mut o);
                Ok((ServerH { s, peer_ser: ChunkSerializer::new(), clock_ms, clock_backwards: false, ids: Vec::new() }, o))
            }
        }
    }

    /// Wire bytes of a peer-message action (None for application / environment actions).
    pub fn peer_bytes(&mut self, a: &SAct) -> Option<Vec<u8>> {
        let ser = &mut self.peer_ser;
        Some(match a {
            SAct::Connect { tx, app } => wire(ser, 0, 0, &command("connect", *tx, obj(vec![("app", s(app)), ("objectEncoding", num(0.0))]), vec![])),
            SAct::ConnectMalformed { shape } => match shape {
                0 => wire(ser, 0, 0, &command("connect", 1.0, V::Null, vec![])),
                1 => wire(ser, 0, 0, &command("connect", 1.0, obj(vec![("tcUrl", s("x"))]), vec![])),
                2 => wire(ser, 0, 0, &command("connect", 1.0, obj(vec![("app", num(3.0))]), vec![])),
                _ => wire(ser, 0, 0, &command("connect", 1.0, s("app"), vec![s("x")])),
            },
            SAct::CreateStream { tx } => wire(ser, 0, 0, &command("createStream", *tx, V::Null, vec![])),
            SAct::Publish { sid, key, mode } => wire(ser, *sid, 0, &command("publish", 0.0, V::Null, vec![s(key), s(mode)])),
            SAct::PublishExtra { sid, key, mode } => wire(ser, *sid, 0, &command("publish", 0.0, V::Null, vec![s(key), s(mode), num(0.0), s("record")])),
            SAct::PlayExtra { sid, key } => wire(ser, *sid, 0, &command("play", 0.0, V::Null, vec![s(key), num(-2.0), num(-1.0), V::Bool(true), s("x")])),
            SAct::PublishMalformed { sid, shape } => match shape {
                0 => wire(ser, *sid, 0, &command("publish", 0.0, V::Null, vec![])),
                1 => wire(ser, *sid, 0, &command("publish", 0.0, V::Null, vec![s("k1")])),
                2 => wire(ser, *sid, 0, &command("publish", 0.0, V::Null, vec![num(1.0), s("live")])),
                _ => wire(ser, *sid, 0, &command("publish", 0.0, V::Null, vec![s("k1"), V::Null])),
            },
            SAct::Play { sid, key } => wire(ser, *sid, 0, &command("play", 0.0, V::Null, vec![s(key)])),
            SAct::PlayMalformed { sid, shape } => match shape {
                0 => wire(ser, *sid, 0, &command("play", 0.0, V::Null, vec![])),
                _ => wire(ser, *sid, 0, &command("play", 0.0, V::Null, vec![V::Bool(true)])),
            },
            SAct::CloseStream { sid } => wire(ser, *sid, 0, &command("closeStream", 0.0, V::Null, vec![num(*sid as f64)])),
            SAct::DeleteStream { sid } => wire(ser, 0, 0, &command("deleteStream", 0.0, V::Null, vec![num(*sid as f64)])),
            SAct::CloseMalformed { delete, shape } => {
                let name = if *delete { "deleteStream" } else { "closeStream" };
                match shape {
                    0 => wire(ser, 0, 0, &command(name, 0.0, V::Null, vec![])),
                    _ => wire(ser, 0, 0, &command(name, 0.0, V::Null, vec![s("1")])),
                }
            }
            SAct::Audio { sid, ts, len } => wire(ser, *sid, *ts, &M::Audio(media_payload(*ts ^ 8, *len))),
            SAct::Video { sid, ts, len } => wire(ser, *sid, *ts, &M::Video(media_payload(*ts ^ 9, *len))),
            SAct::Meta { sid, variant } => wire(ser, *sid, 0, &M::Data(vec![s("@setDataFrame"), s("onMetaData"), metadata_sample(*variant).1])),
            SAct::MetaMalformed { sid, shape } => match shape {
                0 => wire(ser, *sid, 0, &M::Data(vec![s("@setDataFrame")])),
                1 => wire(ser, *sid, 0, &M::Data(vec![s("@setDataFrame"), s("onMetaData")])),
                2 => wire(ser, *sid, 0, &M::Data(vec![s("@setDataFrame"), num(1.0), V::Null])),
                3 => wire(ser, *sid, 0, &M::Data(vec![s("@setDataFrame"), s("onMetaData"), s("not an object")])),
                _ => wire(ser, *sid, 0, &M::Data(vec![])),
            },
            SAct::Ping { ts } => wire(ser, 0, 0, &r2::user_control(6, *ts, 0)),
            SAct::PingOnStream { msid, ts } => wire(ser, *msid, 0, &r2::user_control(6, *ts, 0)),
            SAct::PingBurst { ts, n } => {
                let mut all = Vec::new();
                for k in 0..*n {
                    all.extend(wire(ser, 0, 0, &r2::user_control(6, ts.wrapping_add(k as u32), 0)));
                }
                all
            }
            SAct::UnknownCommand => wire(ser, 0, 0, &command("fooBar", 9.0, V::Null, vec![s("x")])),
            SAct::Raw { msid, type_id, body } => wire_raw(ser, *msid, 0, *type_id, body),
            _ => return None,
        })
    }

    /// Executes one action against the real session.
    pub fn step(&mut self, a: &SAct) -> Obs<ServerSessionEvent> {
        let mut o = empty_obs();
        if let SAct::Clock { ms, backwards } = a {
            self.clock_ms = *ms;
            self.clock_backwards = *backwards;
            return o;
        }
        set_clock_ms(self.clock_ms, self.clock_backwards);
        if let Some(bytes) = self.peer_bytes(a) {
            self.input(&bytes, &mut o);
            return o;
        }
        let real = |ids: &Vec<u32>, k: u32| -> u32 {
            match ids.get(k as usize) {
                Some(r) => *r,
                // a position nothing was surfaced at: a number the session never issued
                None => ids.iter().cloned().max().unwrap_or(0).wrapping_add(1000).wrapping_add(k),
            }
        };
        let real_id = match a {
            SAct::Accept { id } | SAct::Reject { id } => real(&self.ids, *id),
            _ => 0,
        };
        let sess = &mut self.s;
        let r: Result<Result<Vec<ServerSessionResult>, String>, String> = match a {
            SAct::Accept { .. } => guarded(|| sess.accept_request(real_id).map_err(|e| format!("{:?}", e))),
            SAct::Reject { .. } => guarded(|| sess.reject_request(real_id, "NetStream.Failed", "rejected").map_err(|e| format!("{:?}", e))),
            SAct::FinishPlaying { sid } => guarded(|| sess.finish_playing(*sid).map(|p| vec![ServerSessionResult::OutboundResponse(p)]).map_err(|e| format!("{:?}", e))),
            SAct::SendAudio { sid, ts, len, droppable } => guarded(|| {
                sess.send_audio_data(*sid, Bytes::from(media_payload(*ts ^ 8, *len)), RtmpTimestamp::new(*ts), *droppable)
                    .map(|p| vec![ServerSessionResult::OutboundResponse(p)])
                    .map_err(|e| format!("{:?}", e))
            }),
            SAct::SendVideo { sid, ts, len, droppable } => guarded(|| {
                sess.send_video_data(*sid, Bytes::from(media_payload(*ts ^ 9, *len)), RtmpTimestamp::new(*ts), *droppable)
                    .map(|p| vec![ServerSessionResult::OutboundResponse(p)])
                    .map_err(|e| format!("{:?}", e))
            }),
            SAct::SendMeta { sid, variant } => guarded(|| {
                sess.send_metadata(*sid, &metadata_sample(*variant).0).map(|p| vec![ServerSessionResult::OutboundResponse(p)]).map_err(|e| format!("{:?}", e))
            }),
            SAct::SendPing => guarded(|| sess.send_ping_request().map(|(p, _)| vec![ServerSessionResult::OutboundResponse(p)]).map_err(|e| format!("{:?}", e))),
            _ => unreachable!(),
        };
        match r {
            Err(p) => o.panicked = Some(p),
            Ok(Err(e)) => o.err = Some(e),
            Ok(Ok(results)) => collect_server(results, &mut o),
        }
        self.rename_request_ids(&mut o, 0);
        o
    }

    pub fn input(&mut self, bytes: &[u8], o: &mut Obs<ServerSessionEvent>) {
        set_clock_ms(self.clock_ms, self.clock_backwards);
        let from = o.events.len();
        let sess = &mut self.s;
        match guarded(|| sess.handle_input(bytes).map_err(|e| format!("{:?}", e))) {
            Err(p) => o.panicked = Some(p),
            Ok(Err(e)) => o.err = Some(e),
            Ok(Ok(results)) => collect_server(results, o),
        }
        self.rename_request_ids(o, from);
    }

    /// Rewrites the request ids in the events from position `from` on into positions in `self.ids`.
    fn rename_request_ids(&mut self, o: &mut Obs<ServerSessionEvent>, from: usize) {
        for e in o.events.iter_mut().skip(from) {
            let slot: Option<&mut u32> = match e {
                ServerSessionEvent::ConnectionRequested { request_id, .. } => Some(request_id),
                ServerSessionEvent::PublishStreamRequested { request_id, .. } => Some(request_id),
                ServerSessionEvent::PlayStreamRequested { request_id, .. } => Some(request_id),
                _ => None,
            };
            if let Some(r) = slot {
                let pos = match self.ids.iter().position(|x| *x == *r) {
                    Some(p) => p,
                    None => {
                        self.ids.push(*r);
                        self.ids.len() - 1
                    }
                };
                *r = pos as u32;
            }
        }
    }

    pub fn fp_logic(&self) -> Vec<u8> {
        let mut v = Vec::new();
        self.s.verif_fingerprint_logic(&mut v);
        v
    }

    /// Logic fingerprint without the acknowledgement byte counter (its last four bytes), and the
    /// deserializer: what decides future decoded observations other than acknowledgements.
    pub fn fp_partition(&self) -> Vec<u8> {
        let mut v = self.fp_logic();
        let n = v.len() - 4;
        v.truncate(n);
        self.s.verif_fingerprint_deserializer(&mut v);
        v
    }

    pub fn fp_full(&self) -> Vec<u8> {
        let mut v = self.fp_logic();
        self.s.verif_fingerprint_codec(&mut v);
        self.peer_ser.verif_fingerprint(&mut v);
        v.extend_from_slice(&self.clock_ms.to_be_bytes());
        v.push(self.clock_backwards as u8);
        v
    }
}

pub fn collect_server(results: Vec<ServerSessionResult>, o: &mut Obs<ServerSessionEvent>) {
    for r in results {
        match r {
            ServerSessionResult::OutboundResponse(Packet { bytes, can_be_dropped }) => {
                o.order.push((0, o.packets.len()));
                o.packets.push((bytes, can_be_dropped));
            }
            ServerSessionResult::RaisedEvent(e) => {
                o.order.push((1, o.events.len()));
                o.events.push(e);
            }
            ServerSessionResult::UnhandleableMessageReceived(_) => {
                o.order.push((2, 0));
                o.unhandleable += 1;
            }
        }
    }
}

pub fn describe_sact(a: &SAct) -> Value {
    json!(format!("{:?}", a))
}

// ---------------------------------------------------------------------------------------------
// client side
// ---------------------------------------------------------------------------------------------

#[derive(Clone)]
pub struct ClientH {
    pub c: ClientSession,
    pub peer_ser: ChunkSerializer,
    pub clock_ms: u64,
    pub clock_backwards: bool,
}

#[derive(Clone, Debug, PartialEq)]
pub enum CAct {
    // application calls
    RequestConnection { app: String },
    RequestPlayback { key: String },
    RequestPublishing { key: String, kind: u8 },
    StopPlayback,
    StopPublishing,
    PublishMeta { variant: u8 },
    PublishVideo { ts: u32, len: usize, droppable: bool },
    PublishAudio { ts: u32, len: usize, droppable: bool },
    SendPing,
    // server messages
    Result { tx: f64, stream: Option<f64> },
    ResultMalformedStream { tx: f64 },
    Error { tx: f64 },
    OnStatus { code: String },
    OnStatusMalformed { shape: u8 },
    Audio { msid: u32, ts: u32, len: usize },
    Video { msid: u32, ts: u32, len: usize },
    Meta { msid: u32, variant: u8 },
    MetaMalformed { msid: u32, shape: u8 },
    Ping { ts: u32 },
    /// n ping requests (timestamps ts, ts+1, ...) delivered in ONE input call
    PingBurst { ts: u32, n: u8 },
    /// a ping request sent on a message stream other than 0 (user control messages SHOULD use stream 0; they need not)
    PingOnStream { msid: u32, ts: u32 },
    Ack { n: u32 },
    UnknownCommand,
    Raw { msid: u32, type_id: u8, body: Vec<u8> },
    Clock { ms: u64, backwards: bool },
}

pub fn kind_of(k: u8) -> PublishRequestType {
    match k {
        0 => PublishRequestType::Live,
        1 => PublishRequestType::Record,
        _ => PublishRequestType::Append,
    }
}

pub fn kind_name(k: u8) -> &'static str {
    match k {
        0 => "live",
        1 => "record",
        _ => "append",
    }
}

impl ClientH {
    pub fn new(cfg: ClientSessionConfig, clock_ms: u64) -> Result<(ClientH, Obs<ClientSessionEvent>), String> {
        set_clock_ms(clock_ms, false);
        match guarded(|| ClientSession::new(cfg)) {
            Err(p) => Err(format!("panic: {}", p)),
            Ok(Err(e)) => Err(format!("{:?}", e)),
            Ok(Ok((c, results))) => {
                let mut o = empty_obs();
                collect_client(results, &mut o);
                Ok((ClientH { c, peer_ser: ChunkSerializer::new(), clock_ms, clock_backwards: false }, o))
            }
        }
    }

    pub fn peer_bytes(&mut self, a: &CAct) -> Option<Vec<u8>> {
        let ser = &mut self.peer_ser;
        Some(match a {
            CAct::Result { tx, stream } => {
                let args = match stream {
                    Some(n) => vec![num(*n)],
                    None => vec![],
                };
                wire(ser, 0, 0, &command("_result", *tx, V::Null, args))
            }
            CAct::ResultMalformedStream { tx } => wire(ser, 0, 0, &command("_result", *tx, V::Null, vec![s("five")])),
            CAct::Error { tx } => {
                // the information object varies with the transaction: level + code only (the description is optional),
                // no information object at all, or a description
                let args = match (*tx as u64) % 3 {
                    1 => vec![obj(vec![("level", s("error")), ("code", s("NetConnection.Connect.Rejected"))])],
                    2 => vec![],
                    _ => vec![obj(vec![("description", s("no"))])],
                };
                wire(ser, 0, 0, &command("_error", *tx, V::Null, args))
            }
            CAct::OnStatus { code } => {
                // failure codes carry level "error", as servers send them
                let level = if code.ends_with(".BadName") || code.ends_with(".StreamNotFound") || code.ends_with(".Failed") { "error" } else { "status" };
                wire(ser, 1, 0, &command("onStatus", 0.0, V::Null, vec![obj(vec![("level", s(level)), ("code", s(code))])]))
            }
            CAct::OnStatusMalformed { shape } => match shape {
                0 => wire(ser, 1, 0, &command("onStatus", 0.0, V::Null, vec![])),
                1 => wire(ser, 1, 0, &command("onStatus", 0.0, V::Null, vec![s("NetStream.Play.Start")])),
                _ => wire(ser, 1, 0, &command("onStatus", 0.0, V::Null, vec![obj(vec![("code", num(1.0))])])),
            },
            CAct::Audio { msid, ts, len } => wire(ser, *msid, *ts, &M::Audio(media_payload(*ts ^ 8, *len))),
            CAct::Video { msid, ts, len } => wire(ser, *msid, *ts, &M::Video(media_payload(*ts ^ 9, *len))),
            CAct::Meta { msid, variant } => wire(ser, *msid, 0, &M::Data(vec![s("onMetaData"), metadata_sample(*variant).1])),
            CAct::MetaMalformed { msid, shape } => match shape {
                0 => wire(ser, *msid, 0, &M::Data(vec![s("onMetaData")])),
                1 => wire(ser, *msid, 0, &M::Data(vec![s("onMetaData"), s("x")])),
                _ => wire(ser, *msid, 0, &M::Data(vec![])),
            },
            CAct::Ping { ts } => wire(ser, 0, 0, &r2::user_control(6, *ts, 0)),
            CAct::PingOnStream { msid, ts } => wire(ser, *msid, 0, &r2::user_control(6, *ts, 0)),
            CAct::PingBurst { ts, n } => {
                let mut all = Vec::new();
                for k in 0..*n {
                    all.extend(wire(ser, 0, 0, &r2::user_control(6, ts.wrapping_add(k as u32), 0)));
                }
                all
            }
            CAct::Ack { n } => {
                // two acknowledgements: the peer's running total, then a smaller one (the 32-bit total wraps, and some
                // peers restart it after every acknowledgement)
                let mut b = wire(ser, 0, 0, &M::Ack(*n));
                b.extend(wire(ser, 0, 0, &M::Ack(*n / 2)));
                b
            }
            CAct::UnknownCommand => wire(ser, 0, 0, &command("fooBar", 9.0, V::Null, vec![s("x")])),
            CAct::Raw { msid, type_id, body } => wire_raw(ser, *msid, 0, *type_id, body),
            _ => return None,
        })
    }

    pub fn step(&mut self, a: &CAct) -> Obs<ClientSessionEvent> {
        let mut o = empty_obs();
        if let CAct::Clock { ms, backwards } = a {
            self.clock_ms = *ms;
            self.clock_backwards = *backwards;
            return o;
        }
        set_clock_ms(self.clock_ms, self.clock_backwards);
        if let Some(bytes) = self.peer_bytes(a) {
            self.input(&bytes, &mut o);
            return o;
        }
        let c = &mut self.c;
        let one = |r: Result<ClientSessionResult, rml_rtmp::sessions::ClientSessionError>| r.map(|x| vec![x]).map_err(|e| format!("{:?}", e));
        let r: Result<Result<Vec<ClientSessionResult>, String>, String> = match a {
            CAct::RequestConnection { app } => guarded(|| one(c.request_connection(app.clone()))),
            CAct::RequestPlayback { key } => guarded(|| one(c.request_playback(key.clone()))),
            CAct::RequestPublishing { key, kind } => guarded(|| one(c.request_publishing(key.clone(), kind_of(*kind)))),
            CAct::StopPlayback => guarded(|| c.stop_playback().map_err(|e| format!("{:?}", e))),
            CAct::StopPublishing => guarded(|| c.stop_publishing().map_err(|e| format!("{:?}", e))),
            CAct::PublishMeta { variant } => guarded(|| one(c.publish_metadata(&metadata_sample(*variant).0))),
            CAct::PublishVideo { ts, len, droppable } => guarded(|| one(c.publish_video_data(Bytes::from(media_payload(*ts ^ 9, *len)), RtmpTimestamp::new(*ts), *droppable))),
            CAct::PublishAudio { ts, len, droppable } => guarded(|| one(c.publish_audio_data(Bytes::from(media_payload(*ts ^ 8, *len)), RtmpTimestamp::new(*ts), *droppable))),
            CAct::SendPing => guarded(|| c.send_ping_request().map(|(p, _)| vec![ClientSessionResult::OutboundResponse(p)]).map_err(|e| format!("{:?}", e))),
            _ => unreachable!(),
        };
        match r {
            Err(p) => o.panicked = Some(p),
            Ok(Err(e)) => o.err = Some(e),
            Ok(Ok(results)) => collect_client(results, &mut o),
        }
        o
    }

    pub fn input(&mut self, bytes: &[u8], o: &mut Obs<ClientSessionEvent>) {
        set_clock_ms(self.clock_ms, self.clock_backwards);
        let c = &mut self.c;
        match guarded(|| c.handle_input(bytes).map_err(|e| format!("{:?}", e))) {
            Err(p) => o.panicked = Some(p),
            Ok(Err(e)) => o.err = Some(e),
            Ok(Ok(results)) => collect_client(results, o),
        }
    }

    pub fn fp_logic(&self) -> Vec<u8> {
        let mut v = Vec::new();
        self.c.verif_fingerprint_logic(&mut v);
        v
    }

    pub fn fp_partition(&self) -> Vec<u8> {
        let mut v = self.fp_logic();
        let n = v.len() - 4;
        v.truncate(n);
        self.c.verif_fingerprint_deserializer(&mut v);
        v
    }

    pub fn fp_full(&self) -> Vec<u8> {
        let mut v = self.fp_logic();
        self.c.verif_fingerprint_codec(&mut v);
        self.peer_ser.verif_fingerprint(&mut v);
        v.extend_from_slice(&self.clock_ms.to_be_bytes());
        v.push(self.clock_backwards as u8);
        v
    }
}

pub fn collect_client(results: Vec<ClientSessionResult>, o: &mut Obs<ClientSessionEvent>) {
    for r in results {
        match r {
            ClientSessionResult::OutboundResponse(Packet { bytes, can_be_dropped }) => {
                o.order.push((0, o.packets.len()));
                o.packets.push((bytes, can_be_dropped));
            }
            ClientSessionResult::RaisedEvent(e) => {
                o.order.push((1, o.events.len()));
                o.events.push(e);
            }
            ClientSessionResult::UnhandleableMessageReceived(_) => {
                o.order.push((2, 0));
                o.unhandleable += 1;
            }
        }
    }
}

pub fn describe_cact(a: &CAct) -> Value {
    json!(format!("{:?}", a))
}

pub fn default_server_cfg() -> ServerSessionConfig {
    ServerSessionConfig::new()
}

pub fn default_client_cfg() -> ClientSessionConfig {
    ClientSessionConfig::new()
}
