//! C11 — generated handshake packets carry valid Flash-Player-9 digests and signatures.
//! E3 over both roles x all 728 digest offsets x both schemes; oracle R4 (own HMAC-SHA256).

use crate::ev::Run;
use crate::refmodel::sha::{hmac_sha256, self_test};
use crate::util::{guarded, hex};
use rayon::prelude::*;
use rml_rtmp::handshake::{Handshake, HandshakeProcessResult, PeerType};
use rml_rtmp::verif_hooks::{set_fill, FillSpec};
use serde_json::json;
use std::sync::atomic::{AtomicU64, Ordering};

// Constants of the Flash Player 9 handshake, from the clean-room RTMPE description
// (https://www.cs.cmu.edu/~dst/Adobe/Gallery/RTMPE.txt)
const FP_KEY: &[u8] = b"Genuine Adobe Flash Player 001";
const FMS_KEY: &[u8] = b"Genuine Adobe Flash Media Server 001";
const CRUD: [u8; 32] = [
    0xF0, 0xEE, 0xC2, 0x4A, 0x80, 0x68, 0xBE, 0xE8, 0x2E, 0x00, 0xD0, 0xD1, 0x02, 0x9E, 0x7E, 0x57, 0x6E, 0xEC, 0x5D, 0x2D, 0x29, 0x80, 0x6F,
    0xAB, 0x93, 0xB8, 0xE6, 0x36, 0xCF, 0xEB, 0x31, 0xAE,
];

#[derive(Clone, Copy, PartialEq, Debug)]
pub enum Role {
    Client,
    Server,
}

pub fn peer_type(r: Role) -> PeerType {
    match r {
        Role::Client => PeerType::Client,
        Role::Server => PeerType::Server,
    }
}

fn short_key(r: Role) -> &'static [u8] {
    match r {
        Role::Client => FP_KEY,
        Role::Server => FMS_KEY,
    }
}

fn full_key(r: Role) -> Vec<u8> {
    let mut k = short_key(r).to_vec();
    k.extend_from_slice(&CRUD);
    k
}

/// scheme 0: pointer bytes 8..12, digest area starts at 12; scheme 1: pointer 772..776, area at 776
pub fn digest_offset(p1: &[u8], scheme: u8) -> usize {
    let (ptr, base) = if scheme == 0 { (8, 12) } else { (772, 776) };
    let sum: usize = p1[ptr..ptr + 4].iter().map(|b| *b as usize).sum();
    sum % 728 + base
}

pub fn digest_valid_at(p1: &[u8], off: usize, key: &[u8]) -> bool {
    let mut msg = Vec::with_capacity(1504);
    msg.extend_from_slice(&p1[..off]);
    msg.extend_from_slice(&p1[off + 32..]);
    hmac_sha256(key, &msg)[..] == p1[off..off + 32]
}

/// Four bytes (each <= 255) with the given sum (0..=1020), spread in a few different ways.
fn split_sum(sum: usize, variant: usize) -> [u8; 4] {
    let mut b = [0u8; 4];
    let mut rest = sum;
    let order: [usize; 4] = match variant % 3 {
        0 => [0, 1, 2, 3],
        1 => [3, 2, 1, 0],
        _ => [1, 3, 0, 2],
    };
    if variant % 3 == 2 {
        // spread evenly
        for i in 0..4 {
            b[i] = (sum / 4) as u8;
        }
        let mut r = sum - 4 * (sum / 4);
        let mut i = 0;
        while r > 0 {
            b[i] += 1;
            r -= 1;
            i += 1;
        }
        return b;
    }
    for &i in order.iter() {
        let t = rest.min(255);
        b[i] = t as u8;
        rest -= t;
    }
    b
}

/// Builds a digest-bearing packet 1 as a peer of role `peer` would, under `scheme`, with the
/// pointer bytes summing to `sum`.
pub fn build_peer_p1(peer: Role, scheme: u8, sum: usize, variant: usize, seed: u64) -> Vec<u8> {
    build_peer_p1_v(peer, scheme, sum, variant, seed, [128, 0, 7, 2])
}

/// As `build_peer_p1` with explicit time/version bytes 4..8 (peers use many different values).
pub fn build_peer_p1_v(peer: Role, scheme: u8, sum: usize, variant: usize, seed: u64, version: [u8; 4]) -> Vec<u8> {
    let mut p1 = vec![0u8; 1536];
    let mut x = seed.wrapping_mul(0x9E3779B97F4A7C15) ^ 0xDEADBEEF;
    for b in p1.iter_mut().skip(8) {
        x ^= x << 13;
        x ^= x >> 7;
        x ^= x << 17;
        *b = x as u8;
    }
    p1[4..8].copy_from_slice(&version);
    let ptr = if scheme == 0 { 8 } else { 772 };
    p1[ptr..ptr + 4].copy_from_slice(&split_sum(sum, variant));
    let off = digest_offset(&p1, scheme);
    let mut msg = Vec::with_capacity(1504);
    msg.extend_from_slice(&p1[..off]);
    msg.extend_from_slice(&p1[off + 32..]);
    let d = hmac_sha256(short_key(peer), &msg);
    p1[off..off + 32].copy_from_slice(&d);
    p1
}

fn other(r: Role) -> Role {
    if r == Role::Client { Role::Server } else { Role::Client }
}

/// Runs `role`'s handshake up to the answer to the given peer packet 1; returns (own p0+p1, p2).
fn answer_to(role: Role, peer_p1: &[u8], seed: u64) -> Result<(Vec<u8>, Vec<u8>), String> {
    answer_to_with_extra(role, peer_p1, seed, 0)
}

/// As `answer_to`, with `extra` further peer bytes (the start of its packet 2) in the same call.
fn answer_to_with_extra(role: Role, peer_p1: &[u8], seed: u64, extra: usize) -> Result<(Vec<u8>, Vec<u8>), String> {
    answer_to_with_extra_kind(role, peer_p1, seed, extra, 0)
}

/// kind 0: `extra` filler bytes; kind 1: the peer's packet 2 is an exact copy of OUR packet 1 (what an
/// original-handshake peer sends), complete in the same call, followed by `extra` more bytes.
fn answer_to_with_extra_kind(role: Role, peer_p1: &[u8], seed: u64, extra: usize, kind: u8) -> Result<(Vec<u8>, Vec<u8>), String> {
    set_fill(Some(FillSpec { seed, forced_p1: vec![] }));
    let r = guarded(|| {
        let mut h = Handshake::new(peer_type(role));
        let mut out = Vec::new();
        if role == Role::Client || kind == 1 {
            out.extend(h.generate_outbound_p0_and_p1().map_err(|e| format!("{:?}", e))?);
        }
        let mut input = vec![3u8];
        input.extend_from_slice(peer_p1);
        if kind == 1 {
            input.extend_from_slice(&out[1..1537]);
        }
        input.extend(std::iter::repeat(0x77u8).take(extra));
        let extra = if kind == 1 { extra + 1536 } else { extra };
        match h.process_bytes(&input).map_err(|e| format!("{:?}", e))? {
            HandshakeProcessResult::InProgress { response_bytes } => out.extend(response_bytes),
            HandshakeProcessResult::Completed { response_bytes, .. } => {
                if extra < 1536 {
                    return Err("completed before the peer's packet 2 was complete".to_string());
                }
                out.extend(response_bytes)
            }
        }
        Ok(out)
    });
    set_fill(None);
    let out = match r {
        Err(p) => return Err(format!("panic: {}", p)),
        Ok(Err(e)) => return Err(e),
        Ok(Ok(o)) => o,
    };
    if out.len() != 1 + 1536 + 1536 {
        return Err(format!("{} response bytes instead of 3073", out.len()));
    }
    Ok((out[..1537].to_vec(), out[1537..].to_vec()))
}

pub fn run(run: &Run) {
    if !self_test() {
        eprintln!("MACHINERY-ERROR C11: reference SHA-256/HMAC failed its known-answer test");
        std::process::exit(2);
    }
    let thorough = run.thorough();
    let seeds: Vec<u64> = if thorough { (0..4).map(|i| run.seed.wrapping_add(i)).collect() } else { vec![run.seed] };
    let evals = AtomicU64::new(0);
    let own_ok = AtomicU64::new(0);
    let p2_ok = AtomicU64::new(0);
    let echo_ok = AtomicU64::new(0);

    // ---- 1. own packet 1, every offset the filler can select (all pointer sums 0..=1020) ----
    let mut cases: Vec<(Role, usize, usize, u64)> = Vec::new();
    for role in [Role::Client, Role::Server] {
        for sum in 0..=1020usize {
            for variant in 0..(if thorough { 3 } else { 1 }) {
                for &seed in seeds.iter() {
                    cases.push((role, sum, variant, seed));
                }
            }
        }
    }
    let offsets_seen: Vec<AtomicU64> = (0..2 * 728).map(|_| AtomicU64::new(0)).collect();
    cases.par_iter().for_each(|&(role, sum, variant, seed)| {
        evals.fetch_add(1, Ordering::Relaxed);
        let bytes = split_sum(sum, variant);
        // the filler covers packet bytes 8..1532: index i <-> packet byte 8+i
        let base = if role == Role::Client { 0 } else { 764 };
        let forced: Vec<(usize, u8)> = (0..4).map(|i| (base + i, bytes[i])).collect();
        set_fill(Some(FillSpec { seed, forced_p1: forced }));
        let r = guarded(|| Handshake::new(peer_type(role)).generate_outbound_p0_and_p1().map_err(|e| format!("{:?}", e)));
        set_fill(None);
        let replay = json!({"role": format!("{:?}", role), "pointer_bytes": bytes, "filler_seed": seed});
        let out = match r {
            Ok(Ok(o)) => o,
            other => {
                run.violation("C11/packet1-generation-failed", &format!("{:?}", other), replay);
                return;
            }
        };
        if out.len() != 1537 || out[0] != 3 {
            run.violation("C11/packet1-shape", &format!("{} bytes, first byte {}", out.len(), out.get(0).copied().unwrap_or(0)), replay);
            return;
        }
        let p1 = &out[1..];
        let o0 = digest_offset(p1, 0);
        let o1 = digest_offset(p1, 1);
        let key = short_key(role);
        let v0 = digest_valid_at(p1, o0, key);
        let v1 = digest_valid_at(p1, o1, key);
        if !(v0 || v1) {
            let scheme = if role == Role::Client { 0 } else { 1 };
            let off = if scheme == 0 { o0 - 12 } else { o1 - 776 };
            run.violation(
                &format!("C11/own-packet1-digest-invalid/{:?}", role),
                &format!("{:?} packet 1 with pointer bytes {:?} (sum {}, offset index {}): no valid HMAC-SHA256 digest at either probed position ({} / {})", role, bytes, sum, off, o0, o1),
                replay,
            );
            return;
        }
        let idx = if v0 { o0 - 12 } else { 728 + o1 - 776 };
        offsets_seen[idx].fetch_add(1, Ordering::Relaxed);
        own_ok.fetch_add(1, Ordering::Relaxed);
    });

    // ---- 2. packet 2 in answer to a digest-bearing packet 1: both roles x both schemes x all sums ----
    let mut cases2: Vec<(Role, u8, usize, usize, u64)> = Vec::new();
    for role in [Role::Client, Role::Server] {
        for scheme in 0..2u8 {
            for sum in 0..=1020usize {
                for variant in 0..(if thorough { 2 } else { 1 }) {
                    for &seed in seeds.iter().take(if thorough { 2 } else { 1 }) {
                        cases2.push((role, scheme, sum, variant, seed));
                    }
                }
            }
        }
    }
    cases2.par_iter().for_each(|&(role, scheme, sum, variant, seed)| {
        evals.fetch_add(1, Ordering::Relaxed);
        let peer = other(role);
        let p1 = build_peer_p1(peer, scheme, sum, variant, seed ^ (sum as u64) << 8);
        let off = digest_offset(&p1, scheme);
        let replay = json!({"role": format!("{:?}", role), "peer_scheme_pointer_at": if scheme == 0 { 8 } else { 772 }, "pointer_sum": sum, "digest_offset": off, "peer_packet1": hex(&p1)});
        match answer_to(role, &p1, seed) {
            Err(e) => run.violation(&format!("C11/packet2-not-produced/{:?}", role), &format!("{} (peer digest offset {})", e, off), replay),
            Ok((_own, p2)) => {
                let digest = &p1[off..off + 32];
                let k = hmac_sha256(&full_key(role), digest);
                let sig = hmac_sha256(&k, &p2[..1504]);
                if sig[..] != p2[1504..] {
                    let echoed = p2 == p1;
                    run.violation(
                        &format!("C11/packet2-signature-invalid/{:?}{}", role, if echoed { "/echoed-instead" } else { "" }),
                        &format!("{:?} answer to a digest-bearing packet 1 (scheme pointer at {}, pointer sum {}, digest at {}) does not end with the response signature{}", role, if scheme == 0 { 8 } else { 772 }, sum, off, if echoed { " (it is an echo of packet 1: digest not found)" } else { "" }),
                        replay,
                    );
                } else {
                    p2_ok.fetch_add(1, Ordering::Relaxed);
                }
            }
        }
    });

    // ---- 2b. digest-bearing packet 1 with other time/version fields (peers differ in bytes 0..8) ----
    let versions: [[u8; 4]; 5] = [[0, 0, 0, 0], [9, 0, 124, 2], [10, 0, 45, 2], [255, 255, 255, 255], [0, 0, 0, 1]];
    let mut cases2b: Vec<(Role, u8, usize, [u8; 4], [u8; 4])> = Vec::new();
    for role in [Role::Client, Role::Server] {
        for scheme in 0..2u8 {
            for sum in (0..=1020usize).step_by(if thorough { 17 } else { 101 }) {
                for v in versions.iter() {
                    for time in [[0u8, 0, 0, 0], [0, 0x12, 0x6c, 0xbb]] {
                        cases2b.push((role, scheme, sum, *v, time));
                    }
                }
            }
        }
    }
    let vers_ok = AtomicU64::new(0);
    cases2b.par_iter().for_each(|&(role, scheme, sum, version, time)| {
        evals.fetch_add(1, Ordering::Relaxed);
        let peer = other(role);
        // time field is part of the signed message: set it before signing by rebuilding
        let mut p1 = build_peer_p1_v(peer, scheme, sum, 0, 77 + sum as u64, version);
        p1[0..4].copy_from_slice(&time);
        let off = digest_offset(&p1, scheme);
        let mut msg = Vec::with_capacity(1504);
        msg.extend_from_slice(&p1[..off]);
        msg.extend_from_slice(&p1[off + 32..]);
        let d = hmac_sha256(short_key(peer), &msg);
        p1[off..off + 32].copy_from_slice(&d);
        let replay = json!({"role": format!("{:?}", role), "peer_scheme_pointer_at": if scheme == 0 { 8 } else { 772 }, "pointer_sum": sum, "time_bytes": time, "version_bytes": version, "peer_packet1": hex(&p1)});
        match answer_to(role, &p1, 5) {
            Err(e) => run.violation(&format!("C11/packet2-not-produced/{:?}", role), &e, replay),
            Ok((_own, p2)) => {
                let k = hmac_sha256(&full_key(role), &p1[off..off + 32]);
                let sig = hmac_sha256(&k, &p2[..1504]);
                if sig[..] != p2[1504..] {
                    let echoed = p2 == p1;
                    run.violation(
                        &format!("C11/packet2-signature-invalid/{:?}{}/version-bytes", role, if echoed { "/echoed-instead" } else { "" }),
                        &format!("{:?} answer to a digest-bearing packet 1 with time bytes {:?} and version bytes {:?} (digest at {}) does not end with the response signature{}", role, time, version, off, if echoed { " (echo: digest not looked for / not found)" } else { "" }),
                        replay,
                    );
                } else {
                    vers_ok.fetch_add(1, Ordering::Relaxed);
                }
            }
        }
    });
    run.count("packet2_signature_valid_other_version_bytes", vers_ok.load(Ordering::Relaxed));

    // ---- 2c. near misses: a packet 1 whose digest is wrong in ONE byte (or whose signed content
    //      changed in one byte) carries no valid digest and must be echoed ----
    let near_ok = AtomicU64::new(0);
    let mut cases2c: Vec<(Role, u8, usize, usize)> = Vec::new(); // role, scheme, sum, byte index to flip (0..32 digest, 32.. = content positions)
    for role in [Role::Client, Role::Server] {
        for scheme in 0..2u8 {
            for sum in [0usize, 300, 727, 728, 1020] {
                for flip in 0..36usize {
                    cases2c.push((role, scheme, sum, flip));
                }
            }
        }
    }
    cases2c.par_iter().for_each(|&(role, scheme, sum, flip)| {
        evals.fetch_add(1, Ordering::Relaxed);
        let peer = other(role);
        let mut p1 = build_peer_p1(peer, scheme, sum, 0, 1234 + sum as u64);
        let off = digest_offset(&p1, scheme);
        let pos = if flip < 32 { off + flip } else { [0usize, 7, 1535, 700][flip - 32] };
        // do not touch the pointer bytes of either scheme or the digest area when flipping content
        if flip >= 32 && (pos >= off && pos < off + 32) {
            return;
        }
        p1[pos] ^= 0x01;
        // the flipped packet must not validate under either scheme
        if digest_valid_at(&p1, digest_offset(&p1, 0), short_key(peer)) || digest_valid_at(&p1, digest_offset(&p1, 1), short_key(peer)) {
            return;
        }
        let replay = json!({"role": format!("{:?}", role), "scheme_pointer_at": if scheme == 0 { 8 } else { 772 }, "pointer_sum": sum, "flipped_byte": pos, "digest_at": off, "peer_packet1": hex(&p1)});
        match answer_to(role, &p1, 6) {
            Err(e) => run.violation(&format!("C11/echo-not-produced/{:?}", role), &e, replay),
            Ok((_o, p2)) => {
                if p2 != p1 {
                    run.violation(
                        &format!("C11/packet1-without-valid-digest-not-echoed/{:?}", role),
                        &format!("packet 1 whose {} differs in one bit carries no valid digest, yet packet 2 is not an echo of it", if flip < 32 { format!("digest byte {}", flip) } else { format!("signed content byte {}", pos) }),
                        replay,
                    );
                } else {
                    near_ok.fetch_add(1, Ordering::Relaxed);
                }
            }
        }
    });
    run.count("near_miss_packets_echoed", near_ok.load(Ordering::Relaxed));

    // ---- 2d. the answer does not depend on what else is already buffered behind packet 1 ----
    let extra_ok = AtomicU64::new(0);
    for role in [Role::Client, Role::Server] {
        for extra in [1usize, 700, 1535, 1536, 1600] {
            for digestless in [false, true] {
                evals.fetch_add(1, Ordering::Relaxed);
                let p1 = if digestless { vec![0x5Au8; 1536] } else { build_peer_p1(other(role), 0, 300, 0, 99) };
                let replay = json!({"role": format!("{:?}", role), "digestless": digestless, "further_peer_bytes_in_the_same_call": extra, "peer_packet1": hex(&p1)});
                match answer_to_with_extra(role, &p1, 9, extra) {
                    Err(e) => run.violation(&format!("C11/packet2-not-produced/{:?}/with-further-bytes", role), &format!("{} ({} further bytes in the call)", e, extra), replay),
                    Ok((_o, p2)) => {
                        let ok = if digestless {
                            p2 == p1
                        } else {
                            let off = digest_offset(&p1, 0);
                            let k = hmac_sha256(&full_key(role), &p1[off..off + 32]);
                            hmac_sha256(&k, &p2[..1504])[..] == p2[1504..]
                        };
                        if !ok {
                            run.violation(&format!("C11/packet2-wrong-with-further-bytes/{:?}/{}", role, if digestless { "echo" } else { "signature" }), &format!("with {} further peer bytes in the same call packet 2 is not {}", extra, if digestless { "an exact echo of the digest-less packet 1" } else { "validly signed" }), replay);
                        } else {
                            extra_ok.fetch_add(1, Ordering::Relaxed);
                        }
                    }
                }
            }
        }
    }
    // the peer's packet 2 (an exact copy of our packet 1, as an original-handshake peer sends it) already in the call
    for role in [Role::Client, Role::Server] {
        for extra in [0usize, 9] {
            for (scheme, sum) in [(0u8, 300usize), (1, 0), (0, 727)] {
                evals.fetch_add(1, Ordering::Relaxed);
                let p1 = build_peer_p1(other(role), scheme, sum, 0, 55);
                let replay = json!({"role": format!("{:?}", role), "peer_packet2": "exact copy of the library's packet 1, in the same call as the peer's packet 1", "further_bytes": extra, "peer_packet1": hex(&p1)});
                match answer_to_with_extra_kind(role, &p1, 11, extra, 1) {
                    Err(e) => run.violation(&format!("C11/packet2-not-produced/{:?}/with-peer-packet2-buffered", role), &e, replay),
                    Ok((_o, p2)) => {
                        let off = digest_offset(&p1, scheme);
                        let k = hmac_sha256(&full_key(role), &p1[off..off + 32]);
                        if hmac_sha256(&k, &p2[..1504])[..] != p2[1504..] {
                            run.violation(&format!("C11/packet2-wrong-with-further-bytes/{:?}/signature-with-peer-packet2-buffered", role), "the answer to a digest-bearing packet 1 is not validly signed when the peer's packet 2 (a copy of our packet 1) arrives in the same call", replay);
                        } else {
                            extra_ok.fetch_add(1, Ordering::Relaxed);
                        }
                    }
                }
            }
        }
    }
    // the same object after a refused version byte: if it goes on to answer a digest-bearing packet 1 at all, the
    // answer must be validly signed (an object that has reported an error is still a reachable state)
    for role in [Role::Client, Role::Server] {
        for bad in [0u8, 6, 0xFF] {
            evals.fetch_add(1, Ordering::Relaxed);
            let p1 = build_peer_p1(other(role), 0, 123, 0, 77);
            set_fill(Some(FillSpec { seed: 5, forced_p1: vec![] }));
            let r = guarded(|| {
                let mut h = Handshake::new(peer_type(role));
                let mut out = Vec::new();
                if role == Role::Client {
                    out.extend(h.generate_outbound_p0_and_p1().map_err(|e| format!("{:?}", e))?);
                }
                let first = h.process_bytes(&[bad]);
                if first.is_ok() {
                    return Ok(None); // the byte was not refused: nothing to follow up here (C05 judges acceptance)
                }
                let mut input = vec![3u8];
                input.extend_from_slice(&p1);
                match h.process_bytes(&input) {
                    Err(_) => Ok(None),
                    Ok(HandshakeProcessResult::InProgress { response_bytes }) | Ok(HandshakeProcessResult::Completed { response_bytes, .. }) => {
                        out.extend(response_bytes);
                        Ok::<Option<Vec<u8>>, String>(Some(out))
                    }
                }
            });
            set_fill(None);
            let replay = json!({"role": format!("{:?}", role), "first_byte_refused": bad, "then": "03 + digest-bearing packet 1", "peer_packet1": hex(&p1)});
            match r {
                Err(p) => run.violation(&format!("C11/panic/{:?}/after-refused-version-byte", role), &p, replay),
                Ok(Err(e)) => run.violation(&format!("C11/packet2-not-produced/{:?}/after-refused-version-byte", role), &e, replay),
                Ok(Ok(None)) => {}
                Ok(Ok(Some(out))) => {
                    if out.len() == 3073 {
                        let p2 = &out[1537..];
                        let off = digest_offset(&p1, 0);
                        let k = hmac_sha256(&full_key(role), &p1[off..off + 32]);
                        if hmac_sha256(&k, &p2[..1504])[..] != p2[1504..] {
                            run.violation(&format!("C11/packet2-signature-invalid/{:?}/after-refused-version-byte", role), &format!("after version byte {} was refused, the answer to 03 + a digest-bearing packet 1 is not validly signed", bad), replay);
                        } else {
                            extra_ok.fetch_add(1, Ordering::Relaxed);
                        }
                    }
                }
            }
        }
    }
    run.count("packet2_correct_with_further_buffered_bytes", extra_ok.load(Ordering::Relaxed));

    // ---- 2e. every packet 1 an object generates is valid, not only its first ----
    let regen_ok = AtomicU64::new(0);
    for role in [Role::Client, Role::Server] {
        for (s1, s2) in [(0usize, 500usize), (727, 3), (100, 828), (1020, 0)] {
            for implicit_first in [false, true] {
                evals.fetch_add(1, Ordering::Relaxed);
                let base = if role == Role::Client { 0 } else { 764 };
                let forced = |sum: usize| -> Vec<(usize, u8)> { let b = split_sum(sum, 0); (0..4).map(|i| (base + i, b[i])).collect() };
                let r = guarded(|| {
                    let mut h = Handshake::new(peer_type(role));
                    set_fill(Some(FillSpec { seed: 21, forced_p1: forced(s1) }));
                    let first = if implicit_first {
                        match h.process_bytes(&[]) {
                            Ok(HandshakeProcessResult::InProgress { response_bytes }) => response_bytes,
                            _ => Vec::new(),
                        }
                    } else {
                        h.generate_outbound_p0_and_p1().unwrap_or_default()
                    };
                    set_fill(Some(FillSpec { seed: 22, forced_p1: forced(s2) }));
                    let second = h.generate_outbound_p0_and_p1().unwrap_or_default();
                    set_fill(None);
                    (first, second)
                });
                set_fill(None);
                let replay = json!({"role": format!("{:?}", role), "first_pointer_sum": s1, "second_pointer_sum": s2, "first_generation_implicit_in_process_bytes": implicit_first});
                match r {
                    Err(p) => run.violation("C11/packet1-generation-failed", &p, replay),
                    Ok((first, second)) => {
                        let valid = |out: &Vec<u8>| out.len() == 1537 && out[0] == 3 && (digest_valid_at(&out[1..], digest_offset(&out[1..], 0), short_key(role)) || digest_valid_at(&out[1..], digest_offset(&out[1..], 1), short_key(role)));
                        if !valid(&first) || !valid(&second) {
                            run.violation(&format!("C11/own-packet1-digest-invalid/{:?}/repeated-generation", role), &format!("packets 1 generated by one handshake object: first valid: {}, second valid: {} (pointer sums {} then {})", valid(&first), valid(&second), s1, s2), replay);
                        } else {
                            regen_ok.fetch_add(1, Ordering::Relaxed);
                        }
                    }
                }
            }
        }
    }
    run.count("repeated_generation_valid", regen_ok.load(Ordering::Relaxed));

    // ---- 3. digest-less packet 1: exact echo ----
    for role in [Role::Client, Role::Server] {
        for shape in 0..3 {
            for &seed in seeds.iter() {
                evals.fetch_add(1, Ordering::Relaxed);
                let mut p1 = vec![0u8; 1536];
                if shape >= 1 {
                    let mut x = seed ^ 0x1234_5678_9ABC_DEF1;
                    for b in p1.iter_mut().skip(if shape == 1 { 8 } else { 0 }) {
                        x ^= x << 13;
                        x ^= x >> 7;
                        x ^= x << 17;
                        *b = x as u8;
                    }
                }
                let shape_name = ["zeros", "time+zero+random (original specification)", "all random"][shape];
                let replay = json!({"role": format!("{:?}", role), "digestless_shape": shape_name, "peer_packet1": hex(&p1)});
                match answer_to(role, &p1, seed) {
                    Err(e) => run.violation(&format!("C11/echo-not-produced/{:?}", role), &e, replay),
                    Ok((_o, p2)) => {
                        if p2 != p1 {
                            run.violation(&format!("C11/digestless-packet1-not-echoed/{:?}", role), "packet 2 differs from the received digest-less packet 1", replay);
                        } else {
                            echo_ok.fetch_add(1, Ordering::Relaxed);
                        }
                    }
                }
            }
        }
    }

    let distinct_offsets = offsets_seen.iter().filter(|x| x.load(Ordering::Relaxed) > 0).count();
    let e = evals.load(Ordering::Relaxed);
    run.set("evaluations", json!(e));
    run.set("distinct_nontrivial", json!(e));
    run.set("rule", json!("own packet 1: role x every pointer-byte sum 0..1020 (covers all 728 offsets, and the wrapped sums) x byte decompositions x filler seeds; packet 2: role x scheme x every pointer sum 0..1020 of a reference-built peer packet 1; digest-less: role x 3 shapes; each case is a distinct input"));
    run.set("exhaustive", json!(true));
    run.set("distinct_own_digest_positions_observed", json!(distinct_offsets));
    run.count("own_packet1_digest_valid", own_ok.load(Ordering::Relaxed));
    run.count("packet2_signature_valid", p2_ok.load(Ordering::Relaxed));
    run.count("digestless_echoed", echo_ok.load(Ordering::Relaxed));
    run.sample(json!({"role": "Server", "pointer_bytes": [255, 255, 218, 0], "expect": "digest at 776 + (728 % 728) = 776 valid under HMAC-SHA256(\"Genuine Adobe Flash Media Server 001\")"}));
    run.sample(json!({"role": "Client", "peer_scheme_pointer_at": 772, "pointer_sum": 727, "expect": "packet 2 ends with HMAC(HMAC(peer digest, FP key + 32 bytes), first 1504 bytes)"}));
    run.assume("filler bytes other than the pointer bytes are a sampled dimension (deterministic PRNG per seed); they only influence digest values");
    run.assume("keys and offset formulas are taken from the clean-room RTMPE description the module cites");
    if run.violation_count() == 0 {
        if distinct_offsets != 2 * 728 {
            // vacuity warning, not a verdict: a library that fills packet 1 differently (still validly) can make
            // the forced pointer bytes ineffective; every packet produced was still checked
            eprintln!("WARNING property=C11 vacuity: only {} of 1456 own digest positions were reached", distinct_offsets);
            run.cap_hit(&format!("only {} of 1456 own digest positions were reached (pointer bytes could not be forced)", distinct_offsets));
        }
        run.require_hist(&["own_packet1_digest_valid", "packet2_signature_valid", "digestless_echoed", "packet2_signature_valid_other_version_bytes", "near_miss_packets_echoed"]);
    }
}
