//! In-process watchdog for library calls that cannot be interrupted: a worker marks itself busy before a
//! call and idle after it; a background thread reports a call that has not returned within the cap as a
//! violation of the running property (a hang is a verdict here, not a machinery failure) and ends the process.

use serde_json::{json, Value};
use std::sync::Mutex;
use std::time::Instant;

struct Slot {
    busy_since: Option<Instant>,
    what: String,
    replay: Value,
}

static SLOTS: Mutex<Vec<Slot>> = Mutex::new(Vec::new());

fn slot_index() -> usize {
    rayon::current_thread_index().map(|i| i + 1).unwrap_or(0)
}

pub fn enter(what: &str, replay: Value) {
    let i = slot_index();
    let mut s = SLOTS.lock().unwrap();
    while s.len() <= i {
        s.push(Slot { busy_since: None, what: String::new(), replay: Value::Null });
    }
    s[i] = Slot { busy_since: Some(Instant::now()), what: what.to_string(), replay };
}

pub fn leave() {
    let i = slot_index();
    let mut s = SLOTS.lock().unwrap();
    if i < s.len() {
        s[i].busy_since = None;
    }
}

/// Starts the watchdog (once per process is enough; further calls add further, equivalent threads).
pub fn start(property: &'static str, signature: &'static str, cap_s: f64) {
    std::thread::spawn(move || loop {
        std::thread::sleep(std::time::Duration::from_millis(500));
        let s = SLOTS.lock().unwrap();
        for sl in s.iter() {
            if let Some(t) = sl.busy_since {
                if t.elapsed().as_secs_f64() > cap_s {
                    let path = crate::ev::verif_dir().join("replays").join(format!("{}-hang.json", property));
                    let _ = std::fs::create_dir_all(path.parent().unwrap());
                    let _ = std::fs::write(&path, serde_json::to_string_pretty(&json!({"property": property, "signature": signature, "where": sl.what, "replay": sl.replay})).unwrap());
                    println!("DETAIL property={} signature={} :: a call into the library did not return within {} s ({})", property, signature, cap_s, sl.what);
                    println!("VIOLATION property={} replay={}", property, path.display());
                    std::process::exit(1);
                }
            }
        }
    });
}

/// Global variant: watches every `util::guarded` call of the process (no per-call context; the replay file names
/// the property and how long the call has been running).  A library call that never returns violates every
/// property checked here (each of them presupposes that calls return), so this is a verdict, not a machinery error.
pub fn start_global(property: String, cap_s: f64) {
    let _ = crate::util::now_ms();
    std::thread::spawn(move || loop {
        std::thread::sleep(std::time::Duration::from_millis(200));
        let now = crate::util::now_ms();
        crate::util::COARSE_MS.store(now, std::sync::atomic::Ordering::Relaxed);
        for b in crate::util::BUSY.iter() {
            let t = b.load(std::sync::atomic::Ordering::Relaxed);
            if t != 0 && now + 1 > t && (now + 1 - t) as f64 / 1000.0 > cap_s {
                let path = crate::ev::verif_dir().join("replays").join(format!("{}-hang.json", property));
                let _ = std::fs::create_dir_all(path.parent().unwrap());
                let sig = format!("{}/hang", property);
                let _ = std::fs::write(&path, serde_json::to_string_pretty(&json!({"property": property, "signature": sig,
                    "detail": format!("a guarded call into the library has been running for more than {} s", cap_s)})).unwrap());
                println!("DETAIL property={} signature={} :: a call into the library did not return within {} s", property, sig, cap_s);
                println!("VIOLATION property={} replay={}", property, path.display());
                std::process::exit(1);
            }
        }
    });
}
