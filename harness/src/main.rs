mod bfs;
mod checks;
mod ev;
mod refmodel;
mod util;

fn usage() -> ! {
    eprintln!("usage: vcheck <C01..C20> <quick|thorough>");
    std::process::exit(2);
}

fn main() {
    let args: Vec<String> = std::env::args().collect();
    if args.len() < 3 {
        usage();
    }
    let id = args[1].as_str();
    let mut tier = args[2].clone();
    if let Ok(t) = std::env::var("VERIF_TIER") {
        if t == "quick" || t == "thorough" {
            tier = t;
        }
    }
    util::silence_panics();
    let code = match id {
        "C20" => {
            let run = ev::Run::new("C20", &tier, "exploration");
            checks::c20::run(&run);
            run.finish()
        }
        _ => usage(),
    };
    std::process::exit(code);
}
