mod alloc;
mod bfs;
mod checks;
mod child;
mod counters;
mod ev;
mod refmodel;
mod util;
mod watchdog;

#[global_allocator]
static GLOBAL: alloc::Counting = alloc::Counting;

fn usage() -> ! {
    eprintln!("usage: vcheck <C01..C20> <quick|thorough>");
    std::process::exit(2);
}

fn main() {
    let args: Vec<String> = std::env::args().collect();
    if args.len() < 3 {
        usage();
    }
    if args[1] == "dbg-clone" {
        use rml_rtmp::chunk_io::ChunkDeserializer;
        let mut d = ChunkDeserializer::new();
        let base = alloc::begin();
        let c0 = d.clone();
        println!("clone of fresh: {} bytes", alloc::peak_since(base));
        let _ = d.get_next_message(&[3, 0, 0, 1, 0, 0, 2, 8, 1, 0, 0, 0, 0xAB]);
        let base = alloc::begin();
        let c1 = d.clone();
        println!("clone after partial token: {} bytes", alloc::peak_since(base));
        let _ = d.get_next_message(&[0xAB]);
        let base = alloc::begin();
        let c2 = d.clone();
        println!("clone after complete message: {} bytes", alloc::peak_since(base));
        drop((c0, c1, c2));
        std::process::exit(0);
    }
    if args[1] == "case" {
        util::silence_panics();
        let code = match args[2].as_str() {
            "amf0" => checks::c14::case_main(&args[3..]),
            "cfg" => checks::c19::case_main(&args[3..]),
            _ => 2,
        };
        std::process::exit(code);
    }
    let id = args[1].as_str();
    let mut tier = args[2].clone();
    if let Ok(t) = std::env::var("VERIF_TIER") {
        if t == "quick" || t == "thorough" {
            tier = t;
        }
    }
    if tier != "quick" && tier != "thorough" {
        usage();
    }
    util::silence_panics();
    use checks::codec::Mode;
    let mc = "model_checking";
    let ex = "exploration";
    let (level, f): (&str, Box<dyn Fn(&ev::Run)>) = match id {
        "C01" => (mc, Box::new(|r| checks::codec::run(r, Mode::C01))),
        "C02" => (mc, Box::new(|r| checks::c02::run(r))),
        "C03" => (ex, Box::new(|r| checks::c03::run(r))),
        "C04" => (ex, Box::new(|r| checks::amf0::run_c04(r))),
        "C05" => (mc, Box::new(|r| checks::c05::run(r))),
        "C06" => (mc, Box::new(|r| checks::c06::run(r))),
        "C07" => (mc, Box::new(|r| checks::codec::run(r, Mode::C07))),
        "C08" => (mc, Box::new(|r| checks::codec::run(r, Mode::C08))),
        "C09" => (mc, Box::new(|r| checks::c09::run(r))),
        "C10" => (mc, Box::new(|r| checks::c10::run(r))),
        "C11" => (ex, Box::new(|r| checks::c11::run(r))),
        "C12" => (ex, Box::new(|r| checks::amf0::run_c12(r))),
        "C13" => (ex, Box::new(|r| checks::c13::run(r))),
        "C14" => (ex, Box::new(|r| checks::c14::run(r))),
        "C15" => (mc, Box::new(|r| checks::c15::run(r))),
        "C16" => (mc, Box::new(|r| checks::c16::run(r))),
        "C17" => (mc, Box::new(|r| checks::c17::run(r))),
        "C18" => (mc, Box::new(|r| checks::c18::run(r))),
        "C19" => (ex, Box::new(|r| checks::c19::run(r))),
        "C20" => (ex, Box::new(|r| checks::c20::run(r))),
        _ => usage(),
    };
    // a guarded library call that runs for minutes is a hang (the longest legitimate one takes about a second)
    watchdog::start_global(id.to_string(), if tier == "thorough" { 600.0 } else { 120.0 });
    let run = ev::Run::new(id, &tier, level);
    let r = std::panic::catch_unwind(std::panic::AssertUnwindSafe(|| {
        f(&run);
        run.finish()
    }));
    match r {
        Ok(code) => std::process::exit(code),
        Err(_) => {
            eprintln!("MACHINERY-ERROR property={}: the harness panicked; this is not a verdict", id);
            std::process::exit(2);
        }
    }
}
