//! Lock-free named counters for coverage histograms filled from parallel explorers.
use std::collections::BTreeMap;
use std::sync::atomic::{AtomicU64, Ordering};

pub struct Counters {
    names: Vec<&'static str>,
    vals: Vec<AtomicU64>,
}

impl Counters {
    pub fn new(names: &[&'static str]) -> Counters {
        Counters {
            names: names.to_vec(),
            vals: names.iter().map(|_| AtomicU64::new(0)).collect(),
        }
    }
    #[inline]
    pub fn inc(&self, i: usize) {
        self.vals[i].fetch_add(1, Ordering::Relaxed);
    }
    #[inline]
    pub fn add(&self, i: usize, n: u64) {
        self.vals[i].fetch_add(n, Ordering::Relaxed);
    }
    pub fn get(&self, i: usize) -> u64 {
        self.vals[i].load(Ordering::Relaxed)
    }
    pub fn map(&self) -> BTreeMap<String, u64> {
        let mut m = BTreeMap::new();
        for (i, n) in self.names.iter().enumerate() {
            m.insert(n.to_string(), self.get(i));
        }
        m
    }
}
