//! E4: isolated case runner.  Each case runs in a child process (`vcheck case <kind> <args...>`)
//! with an address-space limit and a wall-clock cap; abnormal termination during a subject call is
//! a verdict for C03/C14/C19 (that is the failure mode those properties describe).

use std::io::Read;
use std::os::unix::process::{CommandExt, ExitStatusExt};
use std::process::{Command, Stdio};
use std::time::{Duration, Instant};

#[derive(Debug, Clone)]
pub enum Exit {
    Code(i32),
    Signal(i32),
    TimedOut,
}

#[derive(Debug, Clone)]
pub struct CaseResult {
    pub exit: Exit,
    pub stdout: String,
    pub stderr_tail: String,
    pub wall_s: f64,
}

pub fn run_case(args: &[String], wall_s: f64, mem_bytes: u64) -> CaseResult {
    let exe = std::env::current_exe().expect("current exe");
    let mut cmd = Command::new(exe);
    cmd.arg("case").args(args).stdin(Stdio::null()).stdout(Stdio::piped()).stderr(Stdio::piped());
    cmd.env("RAYON_NUM_THREADS", "1");
    unsafe {
        cmd.pre_exec(move || {
            let lim = libc::rlimit { rlim_cur: mem_bytes, rlim_max: mem_bytes };
            libc::setrlimit(libc::RLIMIT_AS, &lim);
            let core = libc::rlimit { rlim_cur: 0, rlim_max: 0 };
            libc::setrlimit(libc::RLIMIT_CORE, &core);
            Ok(())
        });
    }
    let start = Instant::now();
    let mut child = match cmd.spawn() {
        Ok(c) => c,
        Err(e) => {
            eprintln!("MACHINERY-ERROR cannot spawn case runner: {}", e);
            std::process::exit(2);
        }
    };
    let mut out = child.stdout.take().unwrap();
    let mut err = child.stderr.take().unwrap();
    let t_out = std::thread::spawn(move || {
        let mut s = String::new();
        let _ = out.read_to_string(&mut s);
        s
    });
    let t_err = std::thread::spawn(move || {
        let mut s = String::new();
        let _ = err.read_to_string(&mut s);
        s
    });
    let exit;
    loop {
        match child.try_wait() {
            Ok(Some(st)) => {
                exit = match (st.code(), st.signal()) {
                    (Some(c), _) => Exit::Code(c),
                    (None, Some(s)) => Exit::Signal(s),
                    _ => Exit::Code(-1),
                };
                break;
            }
            Ok(None) => {
                if start.elapsed().as_secs_f64() > wall_s {
                    let _ = child.kill();
                    let _ = child.wait();
                    exit = Exit::TimedOut;
                    break;
                }
                std::thread::sleep(Duration::from_millis(5));
            }
            Err(_) => {
                exit = Exit::Code(-2);
                break;
            }
        }
    }
    let stdout = t_out.join().unwrap_or_default();
    let stderr = t_err.join().unwrap_or_default();
    let tail: String = stderr.chars().rev().take(400).collect::<String>().chars().rev().collect();
    CaseResult { exit, stdout, stderr_tail: tail, wall_s: start.elapsed().as_secs_f64() }
}

/// Extracts the `RESULT {...}` line a case prints just before it exits normally.
pub fn result_json(r: &CaseResult) -> Option<serde_json::Value> {
    for line in r.stdout.lines().rev() {
        if let Some(rest) = line.strip_prefix("RESULT ") {
            return serde_json::from_str(rest).ok();
        }
    }
    None
}
