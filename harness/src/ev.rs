//! Evidence files, violation reports, replay files and known findings.

use serde_json::{json, Map, Value};
use std::collections::BTreeMap;
use std::path::PathBuf;
use std::sync::Mutex;
use std::time::Instant;

pub fn verif_dir() -> PathBuf {
    if let Ok(d) = std::env::var("VERIF_DIR") {
        return PathBuf::from(d);
    }
    PathBuf::from("/verif")
}

#[derive(Clone, Debug)]
pub struct Violation {
    /// Stable identification of *what* fails (input shape / call site / history), used to match
    /// known findings.  Never just the property id.
    pub signature: String,
    /// Human readable description: expected vs observed.
    pub detail: String,
    /// Replayable artefact (operation list etc.).
    pub replay: Value,
}

pub struct Run {
    pub property: String,
    pub tier: String,
    pub seed: u64,
    pub level: String,
    start: Instant,
    pub coverage: Mutex<Map<String, Value>>,
    pub assumptions: Mutex<Vec<String>>,
    pub violations: Mutex<Vec<Violation>>,
    pub hist: Mutex<BTreeMap<String, u64>>,
    pub samples: Mutex<Vec<Value>>,
    pub caps: Mutex<Vec<String>>,
    /// number of violation reports received (cheap to read from hot loops)
    pub reports: std::sync::atomic::AtomicU64,
}

impl Run {
    pub fn new(property: &str, tier: &str, level: &str) -> Run {
        let seed = std::env::var("VERIF_SEED")
            .ok()
            .and_then(|s| s.parse::<u64>().ok())
            .unwrap_or(0);
        Run {
            property: property.to_string(),
            tier: tier.to_string(),
            seed,
            level: level.to_string(),
            start: Instant::now(),
            coverage: Mutex::new(Map::new()),
            assumptions: Mutex::new(Vec::new()),
            violations: Mutex::new(Vec::new()),
            hist: Mutex::new(BTreeMap::new()),
            samples: Mutex::new(Vec::new()),
            caps: Mutex::new(Vec::new()),
            reports: std::sync::atomic::AtomicU64::new(0),
        }
    }

    pub fn thorough(&self) -> bool {
        self.tier == "thorough"
    }

    pub fn set(&self, key: &str, v: Value) {
        self.coverage.lock().unwrap().insert(key.to_string(), v);
    }

    pub fn add(&self, key: &str, n: u64) {
        let mut c = self.coverage.lock().unwrap();
        let cur = c.get(key).and_then(|v| v.as_u64()).unwrap_or(0);
        c.insert(key.to_string(), json!(cur + n));
    }

    pub fn get_u64(&self, key: &str) -> u64 {
        self.coverage
            .lock()
            .unwrap()
            .get(key)
            .and_then(|v| v.as_u64())
            .unwrap_or(0)
    }

    pub fn count(&self, key: &str, n: u64) {
        *self.hist.lock().unwrap().entry(key.to_string()).or_insert(0) += n;
    }

    pub fn merge_hist(&self, h: &BTreeMap<String, u64>) {
        let mut g = self.hist.lock().unwrap();
        for (k, v) in h {
            *g.entry(k.clone()).or_insert(0) += *v;
        }
    }

    pub fn hist_get(&self, key: &str) -> u64 {
        *self.hist.lock().unwrap().get(key).unwrap_or(&0)
    }

    pub fn sample(&self, v: Value) {
        let mut s = self.samples.lock().unwrap();
        if s.len() < 8 {
            s.push(v);
        }
    }

    /// Records operation lists of states actually reached by an explorer in this run.
    pub fn sample_paths(&self, label: &str, paths: &[Vec<Value>]) {
        for p in paths.iter().take(2) {
            let mut s = self.samples.lock().unwrap();
            if s.len() < 8 {
                s.push(json!({"reached_in": label, "ops": p}));
            }
        }
    }

    pub fn assume(&self, s: &str) {
        self.assumptions.lock().unwrap().push(s.to_string());
    }

    pub fn cap_hit(&self, s: &str) {
        self.caps.lock().unwrap().push(s.to_string());
    }

    /// Number of violation reports so far (lock-free; for early exits from enumeration loops).
    pub fn reports(&self) -> u64 {
        self.reports.load(std::sync::atomic::Ordering::Relaxed)
    }

    pub fn violation(&self, signature: &str, detail: &str, replay: Value) {
        self.reports.fetch_add(1, std::sync::atomic::Ordering::Relaxed);
        let mut v = self.violations.lock().unwrap();
        // keep one representative per signature (the first = smallest, enumeration is simplest-first)
        if v.iter().any(|x| x.signature == signature) {
            return;
        }
        if v.len() < 64 {
            v.push(Violation {
                signature: signature.to_string(),
                detail: detail.to_string(),
                replay,
            });
        }
    }

    pub fn violation_count(&self) -> usize {
        self.violations.lock().unwrap().len()
    }

    /// Vacuity guard: a situation the run is meant to cover never happened.  Reported loudly and
    /// recorded in the evidence (`vacuity_warnings`, `exhaustive: false`); it does not change the exit
    /// code, because a property-preserving change of the library (e.g. a different but legal header
    /// compression policy) can make a situation unreachable without anything being wrong.
    pub fn require_hist(&self, keys: &[&str]) {
        let h = self.hist.lock().unwrap();
        let missing: Vec<String> = keys.iter().filter(|k| h.get(**k).copied().unwrap_or(0) == 0).map(|k| k.to_string()).collect();
        drop(h);
        if !missing.is_empty() {
            eprintln!("WARNING property={} vacuity: situations never reached in this run: {:?}", self.property, missing);
            self.set("vacuity_warnings", json!(missing));
            self.cap_hit(&format!("situations never reached: {:?}", missing));
        }
    }

    fn write_evidence(&self, unlisted: usize) {
        let mut cov = self.coverage.lock().unwrap().clone();
        let samples = self.samples.lock().unwrap().clone();
        cov.insert("samples".into(), Value::Array(samples));
        let hist = self.hist.lock().unwrap();
        let mut hm = Map::new();
        for (k, v) in hist.iter() {
            hm.insert(k.clone(), json!(v));
        }
        cov.insert("histogram".into(), Value::Object(hm));
        let caps = self.caps.lock().unwrap().clone();
        if !caps.is_empty() {
            cov.insert("caps_hit".into(), json!(caps));
            cov.insert("exhaustive".into(), json!(false));
        }
        let ev = json!({
            "property_id": self.property,
            "tier": self.tier,
            "seed": self.seed,
            "level": self.level,
            "coverage": Value::Object(cov),
            "assumptions": *self.assumptions.lock().unwrap(),
            "wall_s": self.start.elapsed().as_secs_f64(),
            "violations": unlisted,
        });
        let dir = verif_dir().join("evidence");
        let _ = std::fs::create_dir_all(&dir);
        let path = dir.join(format!("{}.json", self.property));
        std::fs::write(&path, serde_json::to_string_pretty(&ev).unwrap()).expect("write evidence");
    }

    /// Writes the evidence file, prints KNOWN-FINDING / VIOLATION lines and returns the exit code.
    pub fn finish(&self) -> i32 {
        let known = load_known_findings();
        let violations = self.violations.lock().unwrap().clone();
        let mut unlisted = Vec::new();
        let mut known_hit: BTreeMap<String, String> = BTreeMap::new();
        for v in violations.iter() {
            match known
                .iter()
                .find(|k| k.property == self.property && v.signature.starts_with(&k.signature))
            {
                Some(k) => {
                    known_hit.insert(k.signature.clone(), k.what.clone());
                }
                None => unlisted.push(v.clone()),
            }
        }
        for (sig, what) in known_hit.iter() {
            println!(
                "KNOWN-FINDING: property={} signature={} {}",
                self.property, sig, what
            );
        }
        self.set(
            "known_findings_seen",
            json!(known_hit.keys().cloned().collect::<Vec<_>>()),
        );
        self.write_evidence(unlisted.len());
        if unlisted.is_empty() {
            println!(
                "OK property={} tier={} wall_s={:.1}",
                self.property,
                self.tier,
                self.start.elapsed().as_secs_f64()
            );
            return 0;
        }
        let dir = verif_dir().join("replays");
        let _ = std::fs::create_dir_all(&dir);
        for (i, v) in unlisted.iter().enumerate() {
            let h = crate::util::hash64(v.signature.as_bytes(), 7);
            let path = dir.join(format!("{}-{:08x}.json", self.property, (h as u32)));
            let doc = json!({
                "property": self.property,
                "tier": self.tier,
                "seed": self.seed,
                "signature": v.signature,
                "detail": v.detail,
                "replay": v.replay,
            });
            std::fs::write(&path, serde_json::to_string_pretty(&doc).unwrap()).expect("write replay");
            if i < 16 {
                println!("DETAIL property={} signature={} :: {}", self.property, v.signature, v.detail);
            }
            println!(
                "VIOLATION property={} replay={}",
                self.property,
                path.display()
            );
        }
        1
    }
}

#[derive(Clone, Debug)]
pub struct KnownFinding {
    pub property: String,
    pub signature: String,
    pub what: String,
}

pub fn load_known_findings() -> Vec<KnownFinding> {
    let path = verif_dir().join("known_findings.json");
    let text = match std::fs::read_to_string(&path) {
        Ok(t) => t,
        Err(_) => return Vec::new(),
    };
    let v: Value = match serde_json::from_str(&text) {
        Ok(v) => v,
        Err(e) => {
            eprintln!("MACHINERY-ERROR cannot parse known_findings.json: {}", e);
            std::process::exit(2);
        }
    };
    let mut out = Vec::new();
    if let Some(arr) = v.get("findings").and_then(|x| x.as_array()) {
        for f in arr {
            out.push(KnownFinding {
                property: f["property"].as_str().unwrap_or("").to_string(),
                signature: f["signature"].as_str().unwrap_or("").to_string(),
                what: f["what"].as_str().unwrap_or("").to_string(),
            });
        }
    }
    out
}
