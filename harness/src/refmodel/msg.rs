//! R2: RTMP message bodies from RTMP 1.0 sections 5.4 (protocol control), 7.1 (command/data/audio/
//! video/user control).  Independent of rml_rtmp's `messages` module.

use super::amf0::{self as r3, EncOpts, V};
use rml_rtmp::messages::{PeerBandwidthLimitType, RtmpMessage, UserControlEventType};
use rml_rtmp::time::RtmpTimestamp;

#[derive(Clone, Debug, PartialEq)]
pub enum M {
    SetChunkSize(u32),
    Abort(u32),
    Ack(u32),
    /// (event code, stream id, buffer length, timestamp)
    UserControl { code: u16, stream_id: Option<u32>, buffer_length: Option<u32>, timestamp: Option<u32> },
    WindowAck(u32),
    SetPeerBandwidth(u32, u8),
    Audio(Vec<u8>),
    Video(Vec<u8>),
    Data(Vec<V>),
    Command { name: String, tx: u64, object: V, args: Vec<V> },
    Unknown(u8, Vec<u8>),
}

pub const KNOWN_TYPES: [u8; 12] = [1, 2, 3, 4, 5, 6, 8, 9, 15, 17, 18, 20];
pub const EVENT_CODES: [u16; 9] = [0, 1, 2, 3, 4, 6, 7, 31, 32];

pub fn user_control(code: u16, a: u32, b: u32) -> M {
    match code {
        3 => M::UserControl { code, stream_id: Some(a), buffer_length: Some(b), timestamp: None },
        6 | 7 => M::UserControl { code, stream_id: None, buffer_length: None, timestamp: Some(a) },
        _ => M::UserControl { code, stream_id: Some(a), buffer_length: None, timestamp: None },
    }
}

/// Type id and body bytes the specification assigns.  AMF0 bodies are returned in the property
/// order given.
pub fn encode(m: &M) -> (u8, Vec<u8>) {
    match m {
        M::SetChunkSize(n) => (1, n.to_be_bytes().to_vec()),
        M::Abort(n) => (2, n.to_be_bytes().to_vec()),
        M::Ack(n) => (3, n.to_be_bytes().to_vec()),
        M::UserControl { code, stream_id, buffer_length, timestamp } => {
            let mut b = code.to_be_bytes().to_vec();
            if let Some(s) = stream_id {
                b.extend_from_slice(&s.to_be_bytes());
            }
            if let Some(l) = buffer_length {
                b.extend_from_slice(&l.to_be_bytes());
            }
            if let Some(t) = timestamp {
                b.extend_from_slice(&t.to_be_bytes());
            }
            (4, b)
        }
        M::WindowAck(n) => (5, n.to_be_bytes().to_vec()),
        M::SetPeerBandwidth(n, l) => {
            let mut b = n.to_be_bytes().to_vec();
            b.push(*l);
            (6, b)
        }
        M::Audio(d) => (8, d.clone()),
        M::Video(d) => (9, d.clone()),
        M::Data(vs) => (18, r3::encode_seq(vs, &EncOpts::default())),
        M::Command { name, tx, object, args } => {
            let mut vs = vec![V::Str(name.clone()), V::Num(*tx), object.clone()];
            vs.extend(args.iter().cloned());
            (20, r3::encode_seq(&vs, &EncOpts::default()))
        }
        M::Unknown(t, d) => (*t, d.clone()),
    }
}

/// Strict specification decoder of a body; `Err` when the body does not have the prescribed layout.
pub fn decode(type_id: u8, b: &[u8]) -> Result<M, String> {
    let u32at = |p: usize| -> Result<u32, String> {
        if b.len() < p + 4 {
            Err("body too short".to_string())
        } else {
            Ok(u32::from_be_bytes([b[p], b[p + 1], b[p + 2], b[p + 3]]))
        }
    };
    match type_id {
        1 => {
            let n = u32at(0)?;
            if n > 0x7FFF_FFFF {
                return Err("chunk size above 2^31-1".into());
            }
            Ok(M::SetChunkSize(n))
        }
        2 => Ok(M::Abort(u32at(0)?)),
        3 => Ok(M::Ack(u32at(0)?)),
        4 => {
            if b.len() < 2 {
                return Err("body too short".into());
            }
            let code = u16::from_be_bytes([b[0], b[1]]);
            if !EVENT_CODES.contains(&code) {
                return Err(format!("unknown user control event {}", code));
            }
            let a = u32at(2)?;
            let bb = if code == 3 { u32at(6)? } else { 0 };
            Ok(user_control(code, a, bb))
        }
        5 => Ok(M::WindowAck(u32at(0)?)),
        6 => {
            let n = u32at(0)?;
            if b.len() < 5 {
                return Err("body too short".into());
            }
            if b[4] > 2 {
                return Err("unknown limit type".into());
            }
            Ok(M::SetPeerBandwidth(n, b[4]))
        }
        8 => Ok(M::Audio(b.to_vec())),
        9 => Ok(M::Video(b.to_vec())),
        18 | 15 => Ok(M::Data(r3::canon_seq(&r3::decode_seq(b)?))),
        20 | 17 => {
            let body = if type_id == 17 && !b.is_empty() && b[0] == 0 { &b[1..] } else { b };
            let vs = r3::decode_seq(body)?;
            if vs.len() < 3 {
                return Err("command with fewer than three values".into());
            }
            let name = match &vs[0] {
                V::Str(s) => s.clone(),
                _ => return Err("command name is not a string".into()),
            };
            let tx = match &vs[1] {
                V::Num(n) => *n,
                _ => return Err("transaction id is not a number".into()),
            };
            Ok(M::Command { name, tx, object: r3::canon(&vs[2]), args: r3::canon_seq(&vs[3..]) })
        }
        t => Ok(M::Unknown(t, b.to_vec())),
    }
}

pub fn canon(m: &M) -> M {
    match m {
        M::Data(v) => M::Data(r3::canon_seq(v)),
        M::Command { name, tx, object, args } => M::Command { name: name.clone(), tx: *tx, object: r3::canon(object), args: r3::canon_seq(args) },
        x => x.clone(),
    }
}

fn event_of(code: u16) -> Option<UserControlEventType> {
    Some(match code {
        0 => UserControlEventType::StreamBegin,
        1 => UserControlEventType::StreamEof,
        2 => UserControlEventType::StreamDry,
        3 => UserControlEventType::SetBufferLength,
        4 => UserControlEventType::StreamIsRecorded,
        6 => UserControlEventType::PingRequest,
        7 => UserControlEventType::PingResponse,
        31 => UserControlEventType::BufferEmpty,
        32 => UserControlEventType::BufferReady,
        _ => return None,
    })
}

fn code_of(e: &UserControlEventType) -> u16 {
    match e {
        UserControlEventType::StreamBegin => 0,
        UserControlEventType::StreamEof => 1,
        UserControlEventType::StreamDry => 2,
        UserControlEventType::SetBufferLength => 3,
        UserControlEventType::StreamIsRecorded => 4,
        UserControlEventType::PingRequest => 6,
        UserControlEventType::PingResponse => 7,
        UserControlEventType::BufferEmpty => 31,
        UserControlEventType::BufferReady => 32,
    }
}

pub fn to_lib(m: &M) -> RtmpMessage {
    match m {
        M::SetChunkSize(n) => RtmpMessage::SetChunkSize { size: *n },
        M::Abort(n) => RtmpMessage::Abort { stream_id: *n },
        M::Ack(n) => RtmpMessage::Acknowledgement { sequence_number: *n },
        M::UserControl { code, stream_id, buffer_length, timestamp } => RtmpMessage::UserControl {
            event_type: event_of(*code).expect("known event code"),
            stream_id: *stream_id,
            buffer_length: *buffer_length,
            timestamp: timestamp.map(RtmpTimestamp::new),
        },
        M::WindowAck(n) => RtmpMessage::WindowAcknowledgement { size: *n },
        M::SetPeerBandwidth(n, l) => RtmpMessage::SetPeerBandwidth {
            size: *n,
            limit_type: match l {
                0 => PeerBandwidthLimitType::Hard,
                1 => PeerBandwidthLimitType::Soft,
                _ => PeerBandwidthLimitType::Dynamic,
            },
        },
        M::Audio(d) => RtmpMessage::AudioData { data: bytes::Bytes::from(d.clone()) },
        M::Video(d) => RtmpMessage::VideoData { data: bytes::Bytes::from(d.clone()) },
        M::Data(v) => RtmpMessage::Amf0Data { values: v.iter().map(r3::to_lib).collect() },
        M::Command { name, tx, object, args } => RtmpMessage::Amf0Command {
            command_name: name.clone(),
            transaction_id: f64::from_bits(*tx),
            command_object: r3::to_lib(object),
            additional_arguments: args.iter().map(r3::to_lib).collect(),
        },
        M::Unknown(t, d) => RtmpMessage::Unknown { type_id: *t, data: bytes::Bytes::from(d.clone()) },
    }
}

pub fn from_lib(m: &RtmpMessage) -> M {
    match m {
        RtmpMessage::SetChunkSize { size } => M::SetChunkSize(*size),
        RtmpMessage::Abort { stream_id } => M::Abort(*stream_id),
        RtmpMessage::Acknowledgement { sequence_number } => M::Ack(*sequence_number),
        RtmpMessage::UserControl { event_type, stream_id, buffer_length, timestamp } => M::UserControl {
            code: code_of(event_type),
            stream_id: *stream_id,
            buffer_length: *buffer_length,
            timestamp: timestamp.map(|t| t.value),
        },
        RtmpMessage::WindowAcknowledgement { size } => M::WindowAck(*size),
        RtmpMessage::SetPeerBandwidth { size, limit_type } => M::SetPeerBandwidth(
            *size,
            match limit_type {
                PeerBandwidthLimitType::Hard => 0,
                PeerBandwidthLimitType::Soft => 1,
                PeerBandwidthLimitType::Dynamic => 2,
            },
        ),
        RtmpMessage::AudioData { data } => M::Audio(data.to_vec()),
        RtmpMessage::VideoData { data } => M::Video(data.to_vec()),
        RtmpMessage::Amf0Data { values } => M::Data(r3::from_lib_seq(values)),
        RtmpMessage::Amf0Command { command_name, transaction_id, command_object, additional_arguments } => M::Command {
            name: command_name.clone(),
            tx: transaction_id.to_bits(),
            object: r3::from_lib(command_object),
            args: r3::from_lib_seq(additional_arguments),
        },
        RtmpMessage::Unknown { type_id, data } => M::Unknown(*type_id, data.to_vec()),
    }
}
