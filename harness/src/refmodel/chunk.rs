//! R1: RTMP chunk stream codec written from RTMP 1.0 section 5.3.1.  Shares no code with rml_rtmp.
//!
//! Timestamp arithmetic is modulo 2^32.  The decoder is per-chunk-stream (interleaving allowed)
//! and records per-chunk facts so that callers can evaluate conformance predicates.

use std::collections::BTreeMap;

#[derive(Clone, Debug, PartialEq, Eq, Hash)]
pub struct Msg {
    pub type_id: u8,
    pub msid: u32,
    pub ts: u32,
    pub payload: Vec<u8>,
}

#[derive(Clone, Debug, Default, PartialEq, Eq, Hash)]
pub struct CsState {
    pub have: bool,
    pub ts: u32,
    pub delta: u32,
    pub len: u32,
    pub type_id: u8,
    pub msid: u32,
    pub ext: bool,
    pub in_progress: bool,
    pub partial: Vec<u8>,
}

#[derive(Clone, Debug, PartialEq, Eq)]
pub struct ChunkInfo {
    pub fmt: u8,
    pub csid: u32,
    pub csid_form: u8,
    pub first: bool,
    pub ext_present: bool,
    pub field24: Option<u32>,
    pub ext_value: Option<u32>,
    pub payload_len: usize,
    pub chunk_size_in_force: u32,
    pub restated_fmt0_continuation: bool,
    pub completes: bool,
    /// offset of the chunk's first byte in the whole stream fed so far, and its header length
    pub start: usize,
    pub header_len: usize,
}

#[derive(Clone, Debug)]
pub struct SpecDecoder {
    pub chunk_size: u32,
    pub per: BTreeMap<u32, CsState>,
    pub buf: Vec<u8>,
    /// apply in-band Set Chunk Size messages automatically
    pub auto_chunk_size: bool,
    pub chunks: Vec<ChunkInfo>,
    pub consumed: usize,
    /// parse position inside `buf` while a push is in progress (compacted at the end of push)
    off: usize,
}

const MAXTS: u32 = 0xFF_FFFF;

fn be24(b: &[u8]) -> u32 {
    ((b[0] as u32) << 16) | ((b[1] as u32) << 8) | b[2] as u32
}
fn be32(b: &[u8]) -> u32 {
    ((b[0] as u32) << 24) | ((b[1] as u32) << 16) | ((b[2] as u32) << 8) | b[3] as u32
}
fn le32(b: &[u8]) -> u32 {
    ((b[3] as u32) << 24) | ((b[2] as u32) << 16) | ((b[1] as u32) << 8) | b[0] as u32
}

impl SpecDecoder {
    pub fn new() -> SpecDecoder {
        SpecDecoder {
            chunk_size: 128,
            per: BTreeMap::new(),
            buf: Vec::new(),
            auto_chunk_size: true,
            chunks: Vec::new(),
            consumed: 0,
            off: 0,
        }
    }

    pub fn pending(&self) -> usize {
        self.buf.len() - self.off
    }

    pub fn any_in_progress(&self) -> bool {
        self.per.values().any(|s| s.in_progress)
    }

    /// Canonical bytes of the decoder state (for state-graph keys).
    pub fn fingerprint(&self, out: &mut Vec<u8>) {
        out.extend_from_slice(&self.chunk_size.to_be_bytes());
        out.extend_from_slice(&((self.buf.len() - self.off) as u32).to_be_bytes());
        out.extend_from_slice(&self.buf[self.off..]);
        for (k, s) in self.per.iter() {
            out.extend_from_slice(&k.to_be_bytes());
            out.push(s.have as u8);
            out.extend_from_slice(&s.ts.to_be_bytes());
            out.extend_from_slice(&s.delta.to_be_bytes());
            out.extend_from_slice(&s.len.to_be_bytes());
            out.push(s.type_id);
            out.extend_from_slice(&s.msid.to_be_bytes());
            out.push(s.ext as u8);
            out.push(s.in_progress as u8);
            out.extend_from_slice(&(s.partial.len() as u32).to_be_bytes());
            out.extend_from_slice(&s.partial);
        }
    }

    /// Feeds bytes; returns all messages completed.  `Err` describes a decode or conformance failure.
    pub fn push(&mut self, bytes: &[u8]) -> Result<Vec<Msg>, String> {
        self.buf.extend_from_slice(bytes);
        let mut out = Vec::new();
        let r = loop {
            match self.try_chunk() {
                Err(e) => break Err(e),
                Ok(None) => break Ok(()),
                Ok(Some(Some(m))) => out.push(m),
                Ok(Some(None)) => {}
            }
        };
        // compact once per push (not once per chunk)
        self.buf.drain(..self.off);
        self.off = 0;
        r.map(|_| out)
    }

    /// Tries to parse one whole chunk from the buffer.  Ok(None): need more bytes.
    fn try_chunk(&mut self) -> Result<Option<Option<Msg>>, String> {
        let b = &self.buf[self.off..];
        if b.is_empty() {
            return Ok(None);
        }
        let fmt = b[0] >> 6;
        let c = (b[0] & 63) as u32;
        let (csid, form, hdr) = match c {
            0 => {
                if b.len() < 2 {
                    return Ok(None);
                }
                (64 + b[1] as u32, 2u8, 2usize)
            }
            1 => {
                if b.len() < 3 {
                    return Ok(None);
                }
                (64 + b[1] as u32 + 256 * b[2] as u32, 3u8, 3usize)
            }
            x => (x, 1u8, 1usize),
        };
        // minimal encoding
        if form == 3 && csid < 320 {
            return Err(format!("csid {} encoded in 3-byte form (not minimal)", csid));
        }
        // the per-csid record without its (possibly large) partial payload
        let mut prev = self.per.remove(&csid);
        let had = prev.is_some();
        let mut rec = prev.take().unwrap_or_default();
        let mut partial = std::mem::take(&mut rec.partial);
        let parsed = parse_after_basic(&self.buf[self.off..], fmt, csid, hdr, &rec, partial.len(), self.chunk_size);
        match parsed {
            Err(e) => {
                rec.partial = partial;
                if had {
                    self.per.insert(csid, rec);
                }
                Err(e)
            }
            Ok(None) => {
                rec.partial = partial;
                if had {
                    self.per.insert(csid, rec);
                }
                Ok(None)
            }
            Ok(Some(p)) => {
                let b = &self.buf[self.off..];
                partial.extend_from_slice(&b[p.pos - p.n..p.pos]);
                let mut s = p.state;
                let completes = partial.len() == s.len as usize;
                self.chunks.push(ChunkInfo {
                    start: self.consumed,
                    header_len: p.pos - p.n,
                    fmt,
                    csid,
                    csid_form: form,
                    first: p.first,
                    ext_present: p.ext_value.is_some(),
                    field24: p.field24,
                    ext_value: p.ext_value,
                    payload_len: p.n,
                    chunk_size_in_force: self.chunk_size,
                    restated_fmt0_continuation: p.restated,
                    completes,
                });
                let mut result = None;
                let mut err = None;
                if completes {
                    s.in_progress = false;
                    let m = Msg { type_id: s.type_id, msid: s.msid, ts: s.ts, payload: partial };
                    if self.auto_chunk_size && m.type_id == 1 {
                        if m.payload.len() < 4 {
                            err = Some("Set Chunk Size message shorter than 4 bytes".to_string());
                        } else {
                            let v = be32(&m.payload);
                            if v == 0 || v > 0x7FFF_FFFF {
                                err = Some(format!("Set Chunk Size announces illegal size {:#x}", v));
                            } else {
                                self.chunk_size = v;
                            }
                        }
                    }
                    result = Some(m);
                } else {
                    s.in_progress = true;
                    s.partial = partial;
                }
                self.per.insert(csid, s);
                self.off += p.pos;
                self.consumed += p.pos;
                match err {
                    Some(e) => Err(e),
                    None => Ok(Some(result)),
                }
            }
        }
    }
}

struct Parsed {
    state: CsState,
    pos: usize,
    n: usize,
    first: bool,
    field24: Option<u32>,
    ext_value: Option<u32>,
    restated: bool,
}

/// Parses the message header and locates the payload of one chunk.  `prev` is the chunk stream's
/// record (its `partial` moved out; `have_len` is its length).  Pure: nothing is committed.
fn parse_after_basic(b: &[u8], fmt: u8, csid: u32, hdr: usize, prev: &CsState, have_len: usize, chunk_size: u32) -> Result<Option<Parsed>, String> {
    let mut pos = hdr;
    if fmt != 0 && !prev.have {
        return Err(format!("fmt {} chunk on csid {} with no previous chunk", fmt, csid));
    }
    let first = !prev.in_progress;
    let mut s = prev.clone();
    let mut field24 = None;
    let mut ext_value = None;
    let mut restated = false;
    match fmt {
        0 => {
            if b.len() < pos + 11 {
                return Ok(None);
            }
            let f = be24(&b[pos..]);
            let len = be24(&b[pos + 3..]);
            let ty = b[pos + 6];
            let msid = le32(&b[pos + 7..]);
            pos += 11;
            let ext = f == MAXTS;
            let v = if ext {
                if b.len() < pos + 4 {
                    return Ok(None);
                }
                let x = be32(&b[pos..]);
                pos += 4;
                ext_value = Some(x);
                if x < MAXTS {
                    return Err(format!("extended timestamp {:#x} below 0xFFFFFF on fmt 0", x));
                }
                x
            } else {
                f
            };
            field24 = Some(f);
            if first {
                s.ts = v;
                s.delta = v;
                s.len = len;
                s.type_id = ty;
                s.msid = msid;
                s.ext = ext;
                s.have = true;
            } else {
                // a fmt-0 header on a continuation chunk: tolerated only if it restates the message
                if len != s.len || ty != s.type_id || msid != s.msid || v != s.ts {
                    return Err(format!("fmt 0 header on continuation chunk of csid {} changes message fields", csid));
                }
                s.ext = ext;
                s.delta = v;
                restated = true;
            }
        }
        1 | 2 => {
            let need = if fmt == 1 { 7 } else { 3 };
            if b.len() < pos + need {
                return Ok(None);
            }
            let f = be24(&b[pos..]);
            let (len, ty) = if fmt == 1 { (be24(&b[pos + 3..]), b[pos + 6]) } else { (s.len, s.type_id) };
            pos += need;
            let ext = f == MAXTS;
            let v = if ext {
                if b.len() < pos + 4 {
                    return Ok(None);
                }
                let x = be32(&b[pos..]);
                pos += 4;
                ext_value = Some(x);
                if x < MAXTS {
                    return Err(format!("extended timestamp delta {:#x} below 0xFFFFFF on fmt {}", x, fmt));
                }
                x
            } else {
                f
            };
            field24 = Some(f);
            if !first {
                return Err(format!("fmt {} header on a continuation chunk of csid {}", fmt, csid));
            }
            s.ts = s.ts.wrapping_add(v);
            s.delta = v;
            s.len = len;
            s.type_id = ty;
            s.ext = ext;
        }
        _ => {
            if s.ext {
                if b.len() < pos + 4 {
                    return Ok(None);
                }
                let x = be32(&b[pos..]);
                pos += 4;
                ext_value = Some(x);
                if first && x != s.delta {
                    return Err(format!(
                        "fmt 3 first chunk on csid {} carries extended field {:#x} but the repeated delta is {:#x}",
                        csid, x, s.delta
                    ));
                }
            }
            if first {
                s.ts = s.ts.wrapping_add(s.delta);
            }
        }
    }
    let remaining = (s.len as usize).checked_sub(have_len).ok_or_else(|| "partial longer than length".to_string())?;
    let n = std::cmp::min(chunk_size as usize, remaining);
    if b.len() < pos + n {
        return Ok(None);
    }
    pos += n;
    Ok(Some(Parsed { state: s, pos, n, first, field24, ext_value, restated }))
}

// ---------------------------------------------------------------------------------------------
// Encoder with explicit header choices
// ---------------------------------------------------------------------------------------------

#[derive(Clone, Debug, Default, PartialEq, Eq, Hash)]
pub struct EncCs {
    pub have: bool,
    pub ts: u32,
    pub delta: u32,
    pub len: u32,
    pub type_id: u8,
    pub msid: u32,
    pub ext: bool,
}

#[derive(Clone, Debug, Default)]
pub struct SpecEncoder {
    pub chunk_size: u32,
    pub per: BTreeMap<u32, EncCs>,
}

pub fn csid_forms(csid: u32) -> Vec<u8> {
    // minimal forms only (the spec's three encodings each own a range; 64..319 fit form 2)
    if csid >= 2 && csid <= 63 {
        vec![1]
    } else if csid >= 64 && csid <= 319 {
        vec![2]
    } else {
        vec![3]
    }
}

pub fn basic_header(fmt: u8, csid: u32, form: u8) -> Vec<u8> {
    match form {
        1 => vec![(fmt << 6) | csid as u8],
        2 => vec![fmt << 6, (csid - 64) as u8],
        _ => {
            let v = csid - 64;
            vec![(fmt << 6) | 1, (v & 0xFF) as u8, (v >> 8) as u8]
        }
    }
}

impl SpecEncoder {
    pub fn new() -> SpecEncoder {
        SpecEncoder {
            chunk_size: 128,
            per: BTreeMap::new(),
        }
    }

    pub fn fingerprint(&self, out: &mut Vec<u8>) {
        out.extend_from_slice(&self.chunk_size.to_be_bytes());
        for (k, s) in self.per.iter() {
            out.extend_from_slice(&k.to_be_bytes());
            out.push(s.have as u8);
            out.extend_from_slice(&s.ts.to_be_bytes());
            out.extend_from_slice(&s.delta.to_be_bytes());
            out.extend_from_slice(&s.len.to_be_bytes());
            out.push(s.type_id);
            out.extend_from_slice(&s.msid.to_be_bytes());
            out.push(s.ext as u8);
        }
    }

    /// Header formats the specification permits for `m` as the next message on `csid`.
    pub fn legal_fmts(&self, csid: u32, m: &Msg) -> Vec<u8> {
        let mut v = vec![0u8];
        if let Some(s) = self.per.get(&csid) {
            if s.have && s.msid == m.msid {
                let d = m.ts.wrapping_sub(s.ts);
                if d < 0x8000_0000 {
                    v.push(1);
                    if s.len as usize == m.payload.len() && s.type_id == m.type_id {
                        v.push(2);
                        if d == s.delta {
                            v.push(3);
                        }
                    }
                }
            }
        }
        v
    }

    /// Starts a message: updates the per-csid header state and returns an in-flight message whose
    /// chunks are produced one at a time (so that callers may interleave messages on different
    /// chunk streams and change the chunk size in between).
    pub fn begin(&mut self, csid: u32, form: u8, fmt: u8, m: &Msg) -> InFlight {
        let prev = self.per.get(&csid).cloned().unwrap_or_default();
        let mut s = prev.clone();
        let mut head = basic_header(fmt, csid, form);
        let ext_val;
        match fmt {
            0 => {
                let v = m.ts;
                let f = std::cmp::min(v, MAXTS);
                head.extend_from_slice(&f.to_be_bytes()[1..]);
                head.extend_from_slice(&(m.payload.len() as u32).to_be_bytes()[1..]);
                head.push(m.type_id);
                head.extend_from_slice(&m.msid.to_le_bytes());
                s.ext = v >= MAXTS;
                ext_val = v;
                s.ts = v;
                s.delta = v;
                s.len = m.payload.len() as u32;
                s.type_id = m.type_id;
                s.msid = m.msid;
                s.have = true;
            }
            1 | 2 => {
                let d = m.ts.wrapping_sub(prev.ts);
                let f = std::cmp::min(d, MAXTS);
                head.extend_from_slice(&f.to_be_bytes()[1..]);
                if fmt == 1 {
                    head.extend_from_slice(&(m.payload.len() as u32).to_be_bytes()[1..]);
                    head.push(m.type_id);
                }
                s.ext = d >= MAXTS;
                ext_val = d;
                s.ts = m.ts;
                s.delta = d;
                s.len = m.payload.len() as u32;
                s.type_id = m.type_id;
            }
            _ => {
                ext_val = prev.delta;
                s.ts = prev.ts.wrapping_add(prev.delta);
            }
        }
        if s.ext {
            head.extend_from_slice(&ext_val.to_be_bytes());
        }
        let ext = s.ext;
        self.per.insert(csid, s);
        InFlight {
            csid,
            form,
            ext,
            ext_val,
            first_header: Some(head),
            payload: m.payload.clone(),
            off: 0,
            is_set_chunk: if m.type_id == 1 && m.payload.len() >= 4 { Some(be32(&m.payload)) } else { None },
        }
    }

    /// Encodes one message as a list of chunks (so that callers may interleave them).
    pub fn encode(&mut self, csid: u32, form: u8, fmt: u8, m: &Msg) -> Vec<Vec<u8>> {
        let mut f = self.begin(csid, form, fmt, m);
        let mut chunks = Vec::new();
        while !f.done() {
            chunks.push(f.next_chunk(self.chunk_size));
        }
        if let Some(v) = f.is_set_chunk {
            if v >= 1 && v <= 0x7FFF_FFFF {
                self.chunk_size = v;
            }
        }
        chunks
    }
}

#[derive(Clone, Debug)]
pub struct InFlight {
    pub csid: u32,
    pub form: u8,
    pub ext: bool,
    pub ext_val: u32,
    pub first_header: Option<Vec<u8>>,
    pub payload: Vec<u8>,
    pub off: usize,
    pub is_set_chunk: Option<u32>,
}

impl InFlight {
    pub fn done(&self) -> bool {
        self.first_header.is_none() && self.off >= self.payload.len()
    }

    pub fn next_chunk(&mut self, chunk_size: u32) -> Vec<u8> {
        let mut c = match self.first_header.take() {
            Some(h) => h,
            None => {
                let mut c = basic_header(3, self.csid, self.form);
                if self.ext {
                    c.extend_from_slice(&self.ext_val.to_be_bytes());
                }
                c
            }
        };
        let n = std::cmp::min(chunk_size as usize, self.payload.len() - self.off);
        c.extend_from_slice(&self.payload[self.off..self.off + n]);
        self.off += n;
        c
    }
}

#[cfg(test)]
mod tests {
    use super::*;

    #[test]
    fn roundtrip_basic() {
        let mut e = SpecEncoder::new();
        let mut d = SpecDecoder::new();
        let m1 = Msg { type_id: 8, msid: 1, ts: 5, payload: vec![1; 300] };
        let m2 = Msg { type_id: 8, msid: 1, ts: 10, payload: vec![2; 300] };
        let m3 = Msg { type_id: 8, msid: 1, ts: 15, payload: vec![3; 300] };
        let mut bytes = Vec::new();
        for c in e.encode(4, 1, 0, &m1) { bytes.extend(c); }
        assert!(e.legal_fmts(4, &m2).contains(&2));
        for c in e.encode(4, 1, 2, &m2) { bytes.extend(c); }
        assert!(e.legal_fmts(4, &m3).contains(&3));
        for c in e.encode(4, 1, 3, &m3) { bytes.extend(c); }
        let out = d.push(&bytes).unwrap();
        assert_eq!(out, vec![m1, m2, m3]);
        assert_eq!(d.pending(), 0);
    }

    #[test]
    fn spec_example_type0_bytes() {
        // RTMP 1.0 5.3.1.2.1: 3-byte ts, 3-byte len, 1-byte type, 4-byte LE msid
        let mut e = SpecEncoder::new();
        let m = Msg { type_id: 8, msid: 0x01020304, ts: 1000, payload: vec![0xAA; 2] };
        let c = e.encode(3, 1, 0, &m);
        assert_eq!(c[0], vec![0x03, 0x00, 0x03, 0xE8, 0x00, 0x00, 0x02, 0x08, 0x04, 0x03, 0x02, 0x01, 0xAA, 0xAA]);
        // extended timestamp
        let mut e = SpecEncoder::new();
        let m = Msg { type_id: 9, msid: 1, ts: 0x01000000, payload: vec![] };
        let c = e.encode(64, 2, 0, &m);
        assert_eq!(c[0], vec![0x00, 0x00, 0xFF, 0xFF, 0xFF, 0, 0, 0, 9, 1, 0, 0, 0, 1, 0, 0, 0]);
        let c = e.encode(320, 3, 0, &m);
        assert_eq!(&c[0][..3], &[0x01, 0x00, 0x01]);
    }
}
