//! R3: AMF0 encoder/decoder written from the AMF0 specification (amf0-file-format-specification),
//! sharing no code with rml_amf0.  Numbers are kept as bit patterns; objects keep the order in
//! which properties were written and are compared as unordered maps after canonicalisation.

use rml_amf0::Amf0Value;
use std::collections::HashMap;

#[derive(Clone, Debug, PartialEq, Eq, Hash)]
pub enum V {
    Num(u64),
    Bool(bool),
    Str(String),
    Obj(Vec<(String, V)>),
    Arr(Vec<V>),
    Null,
    Undef,
}

#[derive(Clone, Debug)]
pub struct EncOpts {
    /// byte written for `true`
    pub true_byte: u8,
    /// encode objects as ECMA arrays (marker 8) with this count policy: None = plain object
    pub ecma_count: Option<EcmaCount>,
}

#[derive(Clone, Copy, Debug, PartialEq)]
pub enum EcmaCount {
    Zero,
    Exact,
    PlusOne,
    Max,
}

impl Default for EncOpts {
    fn default() -> Self {
        EncOpts { true_byte: 1, ecma_count: None }
    }
}

pub fn canon(v: &V) -> V {
    match v {
        V::Obj(p) => {
            let mut q: Vec<(String, V)> = p.iter().map(|(k, x)| (k.clone(), canon(x))).collect();
            q.sort_by(|a, b| a.0.cmp(&b.0));
            V::Obj(q)
        }
        V::Arr(a) => V::Arr(a.iter().map(canon).collect()),
        x => x.clone(),
    }
}

pub fn canon_seq(v: &[V]) -> Vec<V> {
    v.iter().map(canon).collect()
}

pub fn to_lib(v: &V) -> Amf0Value {
    match v {
        V::Num(b) => Amf0Value::Number(f64::from_bits(*b)),
        V::Bool(b) => Amf0Value::Boolean(*b),
        V::Str(s) => Amf0Value::Utf8String(s.clone()),
        V::Obj(p) => {
            let mut m = HashMap::new();
            for (k, x) in p {
                m.insert(k.clone(), to_lib(x));
            }
            Amf0Value::Object(m)
        }
        V::Arr(a) => Amf0Value::StrictArray(a.iter().map(to_lib).collect()),
        V::Null => Amf0Value::Null,
        V::Undef => Amf0Value::Undefined,
    }
}

pub fn from_lib(v: &Amf0Value) -> V {
    match v {
        Amf0Value::Number(n) => V::Num(n.to_bits()),
        Amf0Value::Boolean(b) => V::Bool(*b),
        Amf0Value::Utf8String(s) => V::Str(s.clone()),
        Amf0Value::Object(m) => {
            let mut q: Vec<(String, V)> = m.iter().map(|(k, x)| (k.clone(), from_lib(x))).collect();
            q.sort_by(|a, b| a.0.cmp(&b.0));
            V::Obj(q)
        }
        Amf0Value::StrictArray(a) => V::Arr(a.iter().map(from_lib).collect()),
        Amf0Value::Null => V::Null,
        Amf0Value::Undefined => V::Undef,
    }
}

pub fn from_lib_seq(v: &[Amf0Value]) -> Vec<V> {
    v.iter().map(from_lib).collect()
}

/// Whether the value can be expressed in AMF0 with the types the library supports
/// (strings and property names <= 65535 bytes, names non-empty).
pub fn encodable(v: &V) -> bool {
    match v {
        V::Str(s) => s.len() <= 65535,
        V::Obj(p) => {
            let mut names: Vec<&String> = p.iter().map(|x| &x.0).collect();
            names.sort();
            names.dedup();
            names.len() == p.len() && p.iter().all(|(k, x)| !k.is_empty() && k.len() <= 65535 && encodable(x))
        }
        V::Arr(a) => a.iter().all(encodable),
        _ => true,
    }
}

pub fn encode(v: &V, out: &mut Vec<u8>, o: &EncOpts) {
    match v {
        V::Num(b) => {
            out.push(0);
            out.extend_from_slice(&b.to_be_bytes());
        }
        V::Bool(b) => {
            out.push(1);
            out.push(if *b { o.true_byte } else { 0 });
        }
        V::Str(s) => {
            out.push(2);
            out.extend_from_slice(&(s.len() as u16).to_be_bytes());
            out.extend_from_slice(s.as_bytes());
        }
        V::Obj(p) => {
            match o.ecma_count {
                None => out.push(3),
                Some(c) => {
                    out.push(8);
                    let n: u32 = match c {
                        EcmaCount::Zero => 0,
                        EcmaCount::Exact => p.len() as u32,
                        EcmaCount::PlusOne => p.len() as u32 + 1,
                        EcmaCount::Max => u32::MAX,
                    };
                    out.extend_from_slice(&n.to_be_bytes());
                }
            }
            for (k, x) in p {
                out.extend_from_slice(&(k.len() as u16).to_be_bytes());
                out.extend_from_slice(k.as_bytes());
                encode(x, out, o);
            }
            out.extend_from_slice(&[0, 0, 9]);
        }
        V::Arr(a) => {
            out.push(10);
            out.extend_from_slice(&(a.len() as u32).to_be_bytes());
            for x in a {
                encode(x, out, o);
            }
        }
        V::Null => out.push(5),
        V::Undef => out.push(6),
    }
}

pub fn encode_seq(vs: &[V], o: &EncOpts) -> Vec<u8> {
    let mut out = Vec::new();
    for v in vs {
        encode(v, &mut out, o);
    }
    out
}

/// Strict specification decoder (types 0,1,2,3,5,6,8,10).  Errors on anything else, on truncation
/// and on invalid UTF-8.
pub fn decode_seq(b: &[u8]) -> Result<Vec<V>, String> {
    let mut pos = 0;
    let mut out = Vec::new();
    while pos < b.len() {
        out.push(decode(b, &mut pos, 0)?);
    }
    Ok(out)
}

fn need(b: &[u8], pos: usize, n: usize) -> Result<(), String> {
    if b.len() < pos + n {
        Err(format!("truncated at {} (need {} more bytes)", pos, n))
    } else {
        Ok(())
    }
}

pub fn decode(b: &[u8], pos: &mut usize, depth: usize) -> Result<V, String> {
    if depth > 4096 {
        return Err("nesting too deep for the reference decoder".into());
    }
    need(b, *pos, 1)?;
    let m = b[*pos];
    *pos += 1;
    match m {
        0 => {
            need(b, *pos, 8)?;
            let mut x = [0u8; 8];
            x.copy_from_slice(&b[*pos..*pos + 8]);
            *pos += 8;
            Ok(V::Num(u64::from_be_bytes(x)))
        }
        1 => {
            need(b, *pos, 1)?;
            let v = b[*pos] != 0;
            *pos += 1;
            Ok(V::Bool(v))
        }
        2 => {
            need(b, *pos, 2)?;
            let n = ((b[*pos] as usize) << 8) | b[*pos + 1] as usize;
            *pos += 2;
            need(b, *pos, n)?;
            let s = String::from_utf8(b[*pos..*pos + n].to_vec()).map_err(|_| "invalid utf-8".to_string())?;
            *pos += n;
            Ok(V::Str(s))
        }
        3 | 8 => {
            if m == 8 {
                need(b, *pos, 4)?;
                *pos += 4;
            }
            let mut props = Vec::new();
            loop {
                need(b, *pos, 2)?;
                let n = ((b[*pos] as usize) << 8) | b[*pos + 1] as usize;
                *pos += 2;
                if n == 0 {
                    need(b, *pos, 1)?;
                    if b[*pos] != 9 {
                        return Err("empty property name not followed by object-end".into());
                    }
                    *pos += 1;
                    break;
                }
                need(b, *pos, n)?;
                let k = String::from_utf8(b[*pos..*pos + n].to_vec()).map_err(|_| "invalid utf-8 in name".to_string())?;
                *pos += n;
                let v = decode(b, pos, depth + 1)?;
                props.push((k, v));
            }
            Ok(V::Obj(props))
        }
        5 => Ok(V::Null),
        6 => Ok(V::Undef),
        10 => {
            need(b, *pos, 4)?;
            let n = u32::from_be_bytes([b[*pos], b[*pos + 1], b[*pos + 2], b[*pos + 3]]);
            *pos += 4;
            let mut a = Vec::new();
            for _ in 0..n {
                a.push(decode(b, pos, depth + 1)?);
            }
            Ok(V::Arr(a))
        }
        x => Err(format!("unsupported marker {}", x)),
    }
}

/// `a` is a prefix of `b` in the sense of C12: all values but the last equal, the last equal or a
/// (recursive) strict-array prefix.
pub fn is_prefix_seq(a: &[V], b: &[V]) -> bool {
    if a.len() > b.len() {
        return false;
    }
    if a.is_empty() {
        return true;
    }
    for i in 0..a.len() - 1 {
        if canon(&a[i]) != canon(&b[i]) {
            return false;
        }
    }
    is_prefix_val(&a[a.len() - 1], &b[a.len() - 1])
}

pub fn is_prefix_val(a: &V, b: &V) -> bool {
    if canon(a) == canon(b) {
        return true;
    }
    match (a, b) {
        (V::Arr(x), V::Arr(y)) => is_prefix_seq(x, y),
        _ => false,
    }
}

#[cfg(test)]
mod tests {
    use super::*;

    #[test]
    fn spec_vectors() {
        // number 1.0
        assert_eq!(encode_seq(&[V::Num(1.0f64.to_bits())], &EncOpts::default()), vec![0, 0x3F, 0xF0, 0, 0, 0, 0, 0, 0]);
        // string "ab"
        assert_eq!(encode_seq(&[V::Str("ab".into())], &EncOpts::default()), vec![2, 0, 2, b'a', b'b']);
        // object {a: true}
        assert_eq!(
            encode_seq(&[V::Obj(vec![("a".into(), V::Bool(true))])], &EncOpts::default()),
            vec![3, 0, 1, b'a', 1, 1, 0, 0, 9]
        );
        // strict array [null, undefined]
        assert_eq!(encode_seq(&[V::Arr(vec![V::Null, V::Undef])], &EncOpts::default()), vec![10, 0, 0, 0, 2, 5, 6]);
        // ecma array
        let o = EncOpts { true_byte: 1, ecma_count: Some(EcmaCount::Exact) };
        assert_eq!(
            encode_seq(&[V::Obj(vec![("a".into(), V::Null)])], &o),
            vec![8, 0, 0, 0, 1, 0, 1, b'a', 5, 0, 0, 9]
        );
        let back = decode_seq(&[8, 0, 0, 0, 1, 0, 1, b'a', 5, 0, 0, 9]).unwrap();
        assert_eq!(back, vec![V::Obj(vec![("a".into(), V::Null)])]);
        assert_eq!(decode_seq(&[1, 2]).unwrap(), vec![V::Bool(true)]);
        assert!(decode_seq(&[4]).is_err());
    }
}
