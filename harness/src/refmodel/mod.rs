pub mod chunk;
pub mod ts;
pub mod amf0;
pub mod sha;
pub mod msg;
