pub mod chunk;
pub mod ts;
pub mod amf0;
