pub mod chunk;
pub mod ts;
