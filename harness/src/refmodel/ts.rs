//! R7: wrap-around clock arithmetic on plain integers (u64 reduced modulo 2^32).
use std::cmp::Ordering;

pub const M: u64 = 1 << 32;

pub fn add(a: u32, d: u32) -> u32 {
    ((a as u64 + d as u64) % M) as u32
}

pub fn sub(a: u32, d: u32) -> u32 {
    ((a as u64 + M - d as u64) % M) as u32
}

/// How far `b` is ahead of `a` on the 2^32 clock.
pub fn ahead(a: u32, b: u32) -> u64 {
    (b as u64 + M - a as u64) % M
}

/// Order prescribed by the property: b is later than a exactly when it is 1..2^31-1 ahead.
/// `None` at the antipode (2^31 apart), where the statement does not bind.
pub fn order(a: u32, b: u32) -> Option<Ordering> {
    let d = ahead(a, b);
    if d == 0 {
        Some(Ordering::Equal)
    } else if d < (1u64 << 31) {
        Some(Ordering::Less)
    } else if d > (1u64 << 31) {
        Some(Ordering::Greater)
    } else {
        None
    }
}
