//! E1: explicit-state breadth-first search over live implementation objects.
//!
//! A state holds real library objects (cloned at branch points) plus reference-model state.
//! States are merged only when their canonical fingerprints (a 128-bit hash of them) are equal.

use rayon::prelude::*;
use serde_json::Value;
use std::collections::HashSet;
use std::sync::atomic::{AtomicU64, Ordering};
use std::sync::Mutex;

pub struct StepOut<S> {
    pub succ: Vec<S>,
    /// (signature, detail)
    pub viol: Vec<(String, String)>,
    /// number of implementation transitions executed while evaluating this edge
    pub impl_steps: u64,
}

impl<S> StepOut<S> {
    pub fn new() -> StepOut<S> {
        StepOut {
            succ: Vec::new(),
            viol: Vec::new(),
            impl_steps: 0,
        }
    }
}

pub trait Graph: Sync {
    type State: Send + Sync;
    type Action: Clone + Send + Sync;
    fn actions(&self, s: &Self::State) -> Vec<Self::Action>;
    fn step(&self, s: &Self::State, a: &Self::Action) -> StepOut<Self::State>;
    fn key(&self, s: &Self::State) -> u128;
    fn describe(&self, a: &Self::Action) -> Value;
}

#[derive(Debug, Clone, Default)]
pub struct BfsStats {
    pub states: u64,
    pub transitions: u64,
    pub impl_steps: u64,
    pub max_depth: usize,
    pub level_sizes: Vec<usize>,
    pub fixpoint: bool,
    pub cap_hit: Option<String>,
    /// operation lists of a few states actually reached in this run (deepest, middle, first level)
    pub sample_paths: Vec<Vec<Value>>,
}

pub struct BfsViolation {
    pub signature: String,
    pub detail: String,
    pub path: Vec<Value>,
}

pub struct BfsOptions {
    pub max_depth: Option<usize>,
    pub max_states: Option<u64>,
    pub merge: bool,
    /// stop expanding after this many distinct violation signatures
    pub max_violations: usize,
    pub wall_cap_s: Option<f64>,
}

impl Default for BfsOptions {
    fn default() -> Self {
        BfsOptions {
            max_depth: None,
            max_states: None,
            merge: true,
            max_violations: 24,
            wall_cap_s: None,
        }
    }
}

const SHARDS: usize = 256;

struct Visited {
    shards: Vec<Mutex<HashSet<u128>>>,
}

impl Visited {
    fn new() -> Visited {
        Visited {
            shards: (0..SHARDS).map(|_| Mutex::new(HashSet::new())).collect(),
        }
    }
    fn insert(&self, k: u128) -> bool {
        let s = (k as usize) % SHARDS;
        self.shards[s].lock().unwrap().insert(k)
    }
}

struct Node<A> {
    parent: usize,
    action: Option<A>,
}

pub fn bfs<G: Graph>(
    g: &G,
    init: Vec<G::State>,
    opts: &BfsOptions,
) -> (BfsStats, Vec<BfsViolation>) {
    let start = std::time::Instant::now();
    let visited = Visited::new();
    let unique = AtomicU64::new(0);
    let key_of = |s: &G::State| -> u128 {
        if opts.merge {
            g.key(s)
        } else {
            unique.fetch_add(1, Ordering::Relaxed) as u128
        }
    };

    let mut arena: Vec<Node<G::Action>> = Vec::new();
    let mut frontier: Vec<(usize, G::State)> = Vec::new();
    let mut stats = BfsStats::default();
    for s in init {
        if visited.insert(key_of(&s)) {
            arena.push(Node {
                parent: usize::MAX,
                action: None,
            });
            frontier.push((arena.len() - 1, s));
            stats.states += 1;
        }
    }

    let mut violations: Vec<BfsViolation> = Vec::new();
    let mut seen_sigs: HashSet<String> = HashSet::new();
    let mut depth = 0usize;
    stats.level_sizes.push(frontier.len());

    while !frontier.is_empty() {
        if let Some(md) = opts.max_depth {
            if depth >= md {
                stats.cap_hit = Some(format!("depth bound {} reached with {} frontier states", md, frontier.len()));
                break;
            }
        }
        if let Some(ms) = opts.max_states {
            if stats.states >= ms {
                stats.cap_hit = Some(format!("state cap {} reached at depth {}", ms, depth));
                break;
            }
        }
        if let Some(w) = opts.wall_cap_s {
            if start.elapsed().as_secs_f64() > w {
                stats.cap_hit = Some(format!("wall cap {}s reached at depth {}", w, depth));
                break;
            }
        }
        if violations.len() >= opts.max_violations {
            stats.cap_hit = Some("violation cap reached".to_string());
            break;
        }

        // states created by the last level before a depth bound are never expanded: count them
        // (they are checked on the edge that creates them) but do not keep the live objects
        let last_level = opts.max_depth.map(|md| depth + 1 >= md).unwrap_or(false);
        let leaf_states = AtomicU64::new(0);
        let fresh_total = AtomicU64::new(0);
        let overflow = std::sync::atomic::AtomicBool::new(false);
        let hard_cap = opts.max_states.map(|m| m.saturating_mul(2));
        // expand one level in parallel
        let results: Vec<(usize, Vec<(G::Action, Vec<G::State>, Vec<(String, String)>)>, u64, u64)> = frontier
            .par_iter()
            .map(|(idx, st)| {
                let mut edges = Vec::new();
                let mut trans = 0u64;
                let mut impl_steps = 0u64;
                if overflow.load(Ordering::Relaxed) {
                    return (*idx, edges, trans, impl_steps);
                }
                for a in g.actions(st) {
                    let out = g.step(st, &a);
                    trans += 1;
                    impl_steps += out.impl_steps;
                    let mut fresh = Vec::new();
                    for s in out.succ {
                        let k = key_of(&s);
                        if visited.insert(k) {
                            if last_level {
                                leaf_states.fetch_add(1, Ordering::Relaxed);
                            } else {
                                fresh.push(s);
                            }
                        }
                    }
                    if !fresh.is_empty() {
                        let n = fresh_total.fetch_add(fresh.len() as u64, Ordering::Relaxed);
                        if let Some(h) = hard_cap {
                            if n > h {
                                overflow.store(true, Ordering::Relaxed);
                            }
                        }
                    }
                    if !fresh.is_empty() || !out.viol.is_empty() {
                        edges.push((a, fresh, out.viol));
                    }
                }
                (*idx, edges, trans, impl_steps)
            })
            .collect();
        stats.states += leaf_states.load(Ordering::Relaxed);
        if overflow.load(Ordering::Relaxed) {
            stats.cap_hit = Some(format!("state cap exceeded while expanding depth {} (part of that level was not expanded)", depth));
        }
        let leaf_count = leaf_states.load(Ordering::Relaxed) as usize;

        let mut next: Vec<(usize, G::State)> = Vec::new();
        for (idx, edges, trans, impl_steps) in results {
            stats.transitions += trans;
            stats.impl_steps += impl_steps;
            for (a, fresh, viol) in edges {
                for (sig, detail) in viol {
                    if seen_sigs.insert(sig.clone()) {
                        let mut path = vec![g.describe(&a)];
                        let mut cur = idx;
                        while cur != usize::MAX {
                            if let Some(ref pa) = arena[cur].action {
                                path.push(g.describe(pa));
                            }
                            cur = arena[cur].parent;
                        }
                        path.reverse();
                        violations.push(BfsViolation {
                            signature: sig,
                            detail,
                            path,
                        });
                    }
                }
                for s in fresh {
                    arena.push(Node {
                        parent: idx,
                        action: Some(a.clone()),
                    });
                    next.push((arena.len() - 1, s));
                    stats.states += 1;
                }
            }
        }
        depth += 1;
        if !next.is_empty() || leaf_count > 0 {
            stats.max_depth = depth;
            stats.level_sizes.push(next.len() + leaf_count);
        }
        if last_level && stats.cap_hit.is_none() && leaf_count > 0 {
            stats.cap_hit = Some(format!("depth bound {} reached with {} frontier states", depth, leaf_count));
        }
        if overflow.load(Ordering::Relaxed) {
            break;
        }
        frontier = next;
    }
    if frontier.is_empty() && stats.cap_hit.is_none() {
        stats.fixpoint = true;
    }
    // sample paths: the last state discovered, one from the middle of the arena, an early one
    if arena.len() > 1 {
        let mut picks = vec![arena.len() - 1, arena.len() / 2, 1.min(arena.len() - 1)];
        picks.dedup();
        for pick in picks {
            let mut path = Vec::new();
            let mut cur = pick;
            while cur != usize::MAX {
                if let Some(ref pa) = arena[cur].action {
                    path.push(g.describe(pa));
                }
                cur = arena[cur].parent;
            }
            path.reverse();
            if !path.is_empty() {
                stats.sample_paths.push(path);
            }
        }
    }
    (stats, violations)
}
